
(** val negb : bool -> bool **)

let negb = function
| true -> false
| false -> true

type nat =
| O
| S of nat

(** val fst : ('a1 * 'a2) -> 'a1 **)

let fst = function
| (x, _) -> x

(** val snd : ('a1 * 'a2) -> 'a2 **)

let snd = function
| (_, y) -> y

(** val length : 'a1 list -> nat **)

let rec length = function
| [] -> O
| _ :: l' -> S (length l')

(** val app : 'a1 list -> 'a1 list -> 'a1 list **)

let rec app l m =
  match l with
  | [] -> m
  | a :: l1 -> a :: (app l1 m)

type comparison =
| Eq
| Lt
| Gt

(** val compOpp : comparison -> comparison **)

let compOpp = function
| Eq -> Eq
| Lt -> Gt
| Gt -> Lt

(** val pred : nat -> nat **)

let pred n0 = match n0 with
| O -> n0
| S u -> u

module Coq__1 = struct
 (** val add : nat -> nat -> nat **)
 let rec add n0 m =
   match n0 with
   | O -> m
   | S p -> S (add p m)
end
include Coq__1

(** val mul : nat -> nat -> nat **)

let rec mul n0 m =
  match n0 with
  | O -> O
  | S p -> add m (mul p m)

(** val sub : nat -> nat -> nat **)

let rec sub n0 m =
  match n0 with
  | O -> n0
  | S k0 -> (match m with
             | O -> n0
             | S l -> sub k0 l)

(** val divmod : nat -> nat -> nat -> nat -> nat * nat **)

let rec divmod x y q u =
  match x with
  | O -> (q, u)
  | S x' -> (match u with
             | O -> divmod x' y (S q) y
             | S u' -> divmod x' y q u')

(** val div : nat -> nat -> nat **)

let div x y = match y with
| O -> y
| S y' -> fst (divmod x y' O y')

(** val modulo : nat -> nat -> nat **)

let modulo x = function
| O -> x
| S y' -> sub y' (snd (divmod x y' O y'))

(** val eqb : bool -> bool -> bool **)

let eqb b1 b2 =
  if b1 then b2 else if b2 then false else true

module Nat =
 struct
  (** val sub : nat -> nat -> nat **)

  let rec sub n0 m =
    match n0 with
    | O -> n0
    | S k0 -> (match m with
               | O -> n0
               | S l -> sub k0 l)

  (** val eqb : nat -> nat -> bool **)

  let rec eqb n0 m =
    match n0 with
    | O -> (match m with
            | O -> true
            | S _ -> false)
    | S n' -> (match m with
               | O -> false
               | S m' -> eqb n' m')

  (** val leb : nat -> nat -> bool **)

  let rec leb n0 m =
    match n0 with
    | O -> true
    | S n' -> (match m with
               | O -> false
               | S m' -> leb n' m')

  (** val ltb : nat -> nat -> bool **)

  let ltb n0 m =
    leb (S n0) m

  (** val max : nat -> nat -> nat **)

  let rec max n0 m =
    match n0 with
    | O -> m
    | S n' -> (match m with
               | O -> n0
               | S m' -> S (max n' m'))

  (** val divmod : nat -> nat -> nat -> nat -> nat * nat **)

  let rec divmod x y q u =
    match x with
    | O -> (q, u)
    | S x' ->
      (match u with
       | O -> divmod x' y (S q) y
       | S u' -> divmod x' y q u')

  (** val div : nat -> nat -> nat **)

  let div x y = match y with
  | O -> y
  | S y' -> fst (divmod x y' O y')

  (** val modulo : nat -> nat -> nat **)

  let modulo x = function
  | O -> x
  | S y' -> sub y' (snd (divmod x y' O y'))
 end

(** val nth : nat -> 'a1 list -> 'a1 -> 'a1 **)

let rec nth n0 l default =
  match n0 with
  | O -> (match l with
          | [] -> default
          | x :: _ -> x)
  | S m -> (match l with
            | [] -> default
            | _ :: t -> nth m t default)

(** val nth_error : 'a1 list -> nat -> 'a1 option **)

let rec nth_error l = function
| O -> (match l with
        | [] -> None
        | x :: _ -> Some x)
| S n1 -> (match l with
           | [] -> None
           | _ :: l0 -> nth_error l0 n1)

(** val last : 'a1 list -> 'a1 -> 'a1 **)

let rec last l d =
  match l with
  | [] -> d
  | a :: l0 -> (match l0 with
                | [] -> a
                | _ :: _ -> last l0 d)

(** val rev : 'a1 list -> 'a1 list **)

let rec rev = function
| [] -> []
| x :: l' -> app (rev l') (x :: [])

(** val concat : 'a1 list list -> 'a1 list **)

let rec concat = function
| [] -> []
| x :: l0 -> app x (concat l0)

(** val map : ('a1 -> 'a2) -> 'a1 list -> 'a2 list **)

let rec map f = function
| [] -> []
| a :: t -> (f a) :: (map f t)

(** val flat_map : ('a1 -> 'a2 list) -> 'a1 list -> 'a2 list **)

let rec flat_map f = function
| [] -> []
| x :: t -> app (f x) (flat_map f t)

(** val fold_left : ('a1 -> 'a2 -> 'a1) -> 'a2 list -> 'a1 -> 'a1 **)

let rec fold_left f l a0 =
  match l with
  | [] -> a0
  | b :: t -> fold_left f t (f a0 b)

(** val fold_right : ('a2 -> 'a1 -> 'a1) -> 'a1 -> 'a2 list -> 'a1 **)

let rec fold_right f a0 = function
| [] -> a0
| b :: t -> f b (fold_right f a0 t)

(** val existsb : ('a1 -> bool) -> 'a1 list -> bool **)

let rec existsb f = function
| [] -> false
| a :: l0 -> (||) (f a) (existsb f l0)

(** val forallb : ('a1 -> bool) -> 'a1 list -> bool **)

let rec forallb f = function
| [] -> true
| a :: l0 -> (&&) (f a) (forallb f l0)

(** val filter : ('a1 -> bool) -> 'a1 list -> 'a1 list **)

let rec filter f = function
| [] -> []
| x :: l0 -> if f x then x :: (filter f l0) else filter f l0

(** val combine : 'a1 list -> 'a2 list -> ('a1 * 'a2) list **)

let rec combine l l' =
  match l with
  | [] -> []
  | x :: tl ->
    (match l' with
     | [] -> []
     | y :: tl' -> (x, y) :: (combine tl tl'))

(** val firstn : nat -> 'a1 list -> 'a1 list **)

let rec firstn n0 l =
  match n0 with
  | O -> []
  | S n1 -> (match l with
             | [] -> []
             | a :: l0 -> a :: (firstn n1 l0))

(** val skipn : nat -> 'a1 list -> 'a1 list **)

let rec skipn n0 l =
  match n0 with
  | O -> l
  | S n1 -> (match l with
             | [] -> []
             | _ :: l0 -> skipn n1 l0)

(** val seq : nat -> nat -> nat list **)

let rec seq start = function
| O -> []
| S len1 -> start :: (seq (S start) len1)

(** val repeat : 'a1 -> nat -> 'a1 list **)

let rec repeat x = function
| O -> []
| S k0 -> x :: (repeat x k0)

type positive =
| XI of positive
| XO of positive
| XH

type n =
| N0
| Npos of positive

type z =
| Z0
| Zpos of positive
| Zneg of positive

module Pos =
 struct
  type mask =
  | IsNul
  | IsPos of positive
  | IsNeg
 end

module Coq_Pos =
 struct
  (** val succ : positive -> positive **)

  let rec succ = function
  | XI p -> XO (succ p)
  | XO p -> XI p
  | XH -> XO XH

  (** val add : positive -> positive -> positive **)

  let rec add x y =
    match x with
    | XI p ->
      (match y with
       | XI q -> XO (add_carry p q)
       | XO q -> XI (add p q)
       | XH -> XO (succ p))
    | XO p ->
      (match y with
       | XI q -> XI (add p q)
       | XO q -> XO (add p q)
       | XH -> XI p)
    | XH -> (match y with
             | XI q -> XO (succ q)
             | XO q -> XI q
             | XH -> XO XH)

  (** val add_carry : positive -> positive -> positive **)

  and add_carry x y =
    match x with
    | XI p ->
      (match y with
       | XI q -> XI (add_carry p q)
       | XO q -> XO (add_carry p q)
       | XH -> XI (succ p))
    | XO p ->
      (match y with
       | XI q -> XO (add_carry p q)
       | XO q -> XI (add p q)
       | XH -> XO (succ p))
    | XH ->
      (match y with
       | XI q -> XI (succ q)
       | XO q -> XO (succ q)
       | XH -> XI XH)

  (** val pred_double : positive -> positive **)

  let rec pred_double = function
  | XI p -> XI (XO p)
  | XO p -> XI (pred_double p)
  | XH -> XH

  (** val pred_N : positive -> n **)

  let pred_N = function
  | XI p -> Npos (XO p)
  | XO p -> Npos (pred_double p)
  | XH -> N0

  type mask = Pos.mask =
  | IsNul
  | IsPos of positive
  | IsNeg

  (** val succ_double_mask : mask -> mask **)

  let succ_double_mask = function
  | IsNul -> IsPos XH
  | IsPos p -> IsPos (XI p)
  | IsNeg -> IsNeg

  (** val double_mask : mask -> mask **)

  let double_mask = function
  | IsPos p -> IsPos (XO p)
  | x0 -> x0

  (** val double_pred_mask : positive -> mask **)

  let double_pred_mask = function
  | XI p -> IsPos (XO (XO p))
  | XO p -> IsPos (XO (pred_double p))
  | XH -> IsNul

  (** val sub_mask : positive -> positive -> mask **)

  let rec sub_mask x y =
    match x with
    | XI p ->
      (match y with
       | XI q -> double_mask (sub_mask p q)
       | XO q -> succ_double_mask (sub_mask p q)
       | XH -> IsPos (XO p))
    | XO p ->
      (match y with
       | XI q -> succ_double_mask (sub_mask_carry p q)
       | XO q -> double_mask (sub_mask p q)
       | XH -> IsPos (pred_double p))
    | XH -> (match y with
             | XH -> IsNul
             | _ -> IsNeg)

  (** val sub_mask_carry : positive -> positive -> mask **)

  and sub_mask_carry x y =
    match x with
    | XI p ->
      (match y with
       | XI q -> succ_double_mask (sub_mask_carry p q)
       | XO q -> double_mask (sub_mask p q)
       | XH -> IsPos (pred_double p))
    | XO p ->
      (match y with
       | XI q -> double_mask (sub_mask_carry p q)
       | XO q -> succ_double_mask (sub_mask_carry p q)
       | XH -> double_pred_mask p)
    | XH -> IsNeg

  (** val mul : positive -> positive -> positive **)

  let rec mul x y =
    match x with
    | XI p -> add y (XO (mul p y))
    | XO p -> XO (mul p y)
    | XH -> y

  (** val iter : ('a1 -> 'a1) -> 'a1 -> positive -> 'a1 **)

  let rec iter f x = function
  | XI n' -> f (iter f (iter f x n') n')
  | XO n' -> iter f (iter f x n') n'
  | XH -> f x

  (** val pow : positive -> positive -> positive **)

  let pow x =
    iter (mul x) XH

  (** val size : positive -> positive **)

  let rec size = function
  | XI p0 -> succ (size p0)
  | XO p0 -> succ (size p0)
  | XH -> XH

  (** val compare_cont : comparison -> positive -> positive -> comparison **)

  let rec compare_cont r x y =
    match x with
    | XI p ->
      (match y with
       | XI q -> compare_cont r p q
       | XO q -> compare_cont Gt p q
       | XH -> Gt)
    | XO p ->
      (match y with
       | XI q -> compare_cont Lt p q
       | XO q -> compare_cont r p q
       | XH -> Gt)
    | XH -> (match y with
             | XH -> r
             | _ -> Lt)

  (** val compare : positive -> positive -> comparison **)

  let compare =
    compare_cont Eq

  (** val eqb : positive -> positive -> bool **)

  let rec eqb p q =
    match p with
    | XI p0 -> (match q with
                | XI q0 -> eqb p0 q0
                | _ -> false)
    | XO p0 -> (match q with
                | XO q0 -> eqb p0 q0
                | _ -> false)
    | XH -> (match q with
             | XH -> true
             | _ -> false)

  (** val coq_Nsucc_double : n -> n **)

  let coq_Nsucc_double = function
  | N0 -> Npos XH
  | Npos p -> Npos (XI p)

  (** val coq_Ndouble : n -> n **)

  let coq_Ndouble = function
  | N0 -> N0
  | Npos p -> Npos (XO p)

  (** val coq_lor : positive -> positive -> positive **)

  let rec coq_lor p q =
    match p with
    | XI p0 ->
      (match q with
       | XI q0 -> XI (coq_lor p0 q0)
       | XO q0 -> XI (coq_lor p0 q0)
       | XH -> p)
    | XO p0 ->
      (match q with
       | XI q0 -> XI (coq_lor p0 q0)
       | XO q0 -> XO (coq_lor p0 q0)
       | XH -> XI p0)
    | XH -> (match q with
             | XO q0 -> XI q0
             | _ -> q)

  (** val coq_land : positive -> positive -> n **)

  let rec coq_land p q =
    match p with
    | XI p0 ->
      (match q with
       | XI q0 -> coq_Nsucc_double (coq_land p0 q0)
       | XO q0 -> coq_Ndouble (coq_land p0 q0)
       | XH -> Npos XH)
    | XO p0 ->
      (match q with
       | XI q0 -> coq_Ndouble (coq_land p0 q0)
       | XO q0 -> coq_Ndouble (coq_land p0 q0)
       | XH -> N0)
    | XH -> (match q with
             | XO _ -> N0
             | _ -> Npos XH)

  (** val coq_lxor : positive -> positive -> n **)

  let rec coq_lxor p q =
    match p with
    | XI p0 ->
      (match q with
       | XI q0 -> coq_Ndouble (coq_lxor p0 q0)
       | XO q0 -> coq_Nsucc_double (coq_lxor p0 q0)
       | XH -> Npos (XO p0))
    | XO p0 ->
      (match q with
       | XI q0 -> coq_Nsucc_double (coq_lxor p0 q0)
       | XO q0 -> coq_Ndouble (coq_lxor p0 q0)
       | XH -> Npos (XI p0))
    | XH ->
      (match q with
       | XI q0 -> Npos (XO q0)
       | XO q0 -> Npos (XI q0)
       | XH -> N0)

  (** val shiftl : positive -> n -> positive **)

  let shiftl p = function
  | N0 -> p
  | Npos n1 -> iter (fun x -> XO x) p n1

  (** val testbit : positive -> n -> bool **)

  let rec testbit p n0 =
    match p with
    | XI p0 -> (match n0 with
                | N0 -> true
                | Npos n1 -> testbit p0 (pred_N n1))
    | XO p0 -> (match n0 with
                | N0 -> false
                | Npos n1 -> testbit p0 (pred_N n1))
    | XH -> (match n0 with
             | N0 -> true
             | Npos _ -> false)

  (** val iter_op : ('a1 -> 'a1 -> 'a1) -> positive -> 'a1 -> 'a1 **)

  let rec iter_op op p a =
    match p with
    | XI p0 -> op a (iter_op op p0 (op a a))
    | XO p0 -> iter_op op p0 (op a a)
    | XH -> a

  (** val to_nat : positive -> nat **)

  let to_nat x =
    iter_op Coq__1.add x (S O)

  (** val of_succ_nat : nat -> positive **)

  let rec of_succ_nat = function
  | O -> XH
  | S x -> succ (of_succ_nat x)
 end

module N =
 struct
  (** val succ_double : n -> n **)

  let succ_double = function
  | N0 -> Npos XH
  | Npos p -> Npos (XI p)

  (** val double : n -> n **)

  let double = function
  | N0 -> N0
  | Npos p -> Npos (XO p)

  (** val succ : n -> n **)

  let succ = function
  | N0 -> Npos XH
  | Npos p -> Npos (Coq_Pos.succ p)

  (** val add : n -> n -> n **)

  let add n0 m =
    match n0 with
    | N0 -> m
    | Npos p -> (match m with
                 | N0 -> n0
                 | Npos q -> Npos (Coq_Pos.add p q))

  (** val sub : n -> n -> n **)

  let sub n0 m =
    match n0 with
    | N0 -> N0
    | Npos n' ->
      (match m with
       | N0 -> n0
       | Npos m' ->
         (match Coq_Pos.sub_mask n' m' with
          | Coq_Pos.IsPos p -> Npos p
          | _ -> N0))

  (** val mul : n -> n -> n **)

  let mul n0 m =
    match n0 with
    | N0 -> N0
    | Npos p -> (match m with
                 | N0 -> N0
                 | Npos q -> Npos (Coq_Pos.mul p q))

  (** val compare : n -> n -> comparison **)

  let compare n0 m =
    match n0 with
    | N0 -> (match m with
             | N0 -> Eq
             | Npos _ -> Lt)
    | Npos n' -> (match m with
                  | N0 -> Gt
                  | Npos m' -> Coq_Pos.compare n' m')

  (** val eqb : n -> n -> bool **)

  let eqb n0 m =
    match n0 with
    | N0 -> (match m with
             | N0 -> true
             | Npos _ -> false)
    | Npos p -> (match m with
                 | N0 -> false
                 | Npos q -> Coq_Pos.eqb p q)

  (** val leb : n -> n -> bool **)

  let leb x y =
    match compare x y with
    | Gt -> false
    | _ -> true

  (** val ltb : n -> n -> bool **)

  let ltb x y =
    match compare x y with
    | Lt -> true
    | _ -> false

  (** val min : n -> n -> n **)

  let min n0 n' =
    match compare n0 n' with
    | Gt -> n'
    | _ -> n0

  (** val max : n -> n -> n **)

  let max n0 n' =
    match compare n0 n' with
    | Gt -> n0
    | _ -> n'

  (** val div2 : n -> n **)

  let div2 = function
  | N0 -> N0
  | Npos p0 -> (match p0 with
                | XI p -> Npos p
                | XO p -> Npos p
                | XH -> N0)

  (** val even : n -> bool **)

  let even = function
  | N0 -> true
  | Npos p -> (match p with
               | XO _ -> true
               | _ -> false)

  (** val odd : n -> bool **)

  let odd n0 =
    negb (even n0)

  (** val pow : n -> n -> n **)

  let pow n0 = function
  | N0 -> Npos XH
  | Npos p0 -> (match n0 with
                | N0 -> N0
                | Npos q -> Npos (Coq_Pos.pow q p0))

  (** val size : n -> n **)

  let size = function
  | N0 -> N0
  | Npos p -> Npos (Coq_Pos.size p)

  (** val pos_div_eucl : positive -> n -> n * n **)

  let rec pos_div_eucl a b =
    match a with
    | XI a' ->
      let (q, r) = pos_div_eucl a' b in
      let r' = succ_double r in
      if leb b r' then ((succ_double q), (sub r' b)) else ((double q), r')
    | XO a' ->
      let (q, r) = pos_div_eucl a' b in
      let r' = double r in
      if leb b r' then ((succ_double q), (sub r' b)) else ((double q), r')
    | XH ->
      (match b with
       | N0 -> (N0, (Npos XH))
       | Npos p -> (match p with
                    | XH -> ((Npos XH), N0)
                    | _ -> (N0, (Npos XH))))

  (** val div_eucl : n -> n -> n * n **)

  let div_eucl a b =
    match a with
    | N0 -> (N0, N0)
    | Npos na -> (match b with
                  | N0 -> (N0, a)
                  | Npos _ -> pos_div_eucl na b)

  (** val div : n -> n -> n **)

  let div a b =
    fst (div_eucl a b)

  (** val modulo : n -> n -> n **)

  let modulo a b =
    snd (div_eucl a b)

  (** val coq_lor : n -> n -> n **)

  let coq_lor n0 m =
    match n0 with
    | N0 -> m
    | Npos p -> (match m with
                 | N0 -> n0
                 | Npos q -> Npos (Coq_Pos.coq_lor p q))

  (** val coq_land : n -> n -> n **)

  let coq_land n0 m =
    match n0 with
    | N0 -> N0
    | Npos p -> (match m with
                 | N0 -> N0
                 | Npos q -> Coq_Pos.coq_land p q)

  (** val coq_lxor : n -> n -> n **)

  let coq_lxor n0 m =
    match n0 with
    | N0 -> m
    | Npos p -> (match m with
                 | N0 -> n0
                 | Npos q -> Coq_Pos.coq_lxor p q)

  (** val shiftl : n -> n -> n **)

  let shiftl a n0 =
    match a with
    | N0 -> N0
    | Npos a0 -> Npos (Coq_Pos.shiftl a0 n0)

  (** val shiftr : n -> n -> n **)

  let shiftr a = function
  | N0 -> a
  | Npos p -> Coq_Pos.iter div2 a p

  (** val testbit : n -> n -> bool **)

  let testbit a n0 =
    match a with
    | N0 -> false
    | Npos p -> Coq_Pos.testbit p n0

  (** val to_nat : n -> nat **)

  let to_nat = function
  | N0 -> O
  | Npos p -> Coq_Pos.to_nat p

  (** val of_nat : nat -> n **)

  let of_nat = function
  | O -> N0
  | S n' -> Npos (Coq_Pos.of_succ_nat n')

  (** val b2n : bool -> n **)

  let b2n = function
  | true -> Npos XH
  | false -> N0
 end

type ascii =
| Ascii of bool * bool * bool * bool * bool * bool * bool * bool

(** val eqb0 : ascii -> ascii -> bool **)

let eqb0 a b =
  let Ascii (a0, a1, a2, a3, a4, a5, a6, a7) = a in
  let Ascii (b0, b1, b2, b3, b4, b5, b6, b7) = b in
  if if if if if if if eqb a0 b0 then eqb a1 b1 else false
                 then eqb a2 b2
                 else false
              then eqb a3 b3
              else false
           then eqb a4 b4
           else false
        then eqb a5 b5
        else false
     then eqb a6 b6
     else false
  then eqb a7 b7
  else false

(** val n_of_digits : bool list -> n **)

let rec n_of_digits = function
| [] -> N0
| b :: l' ->
  N.add (if b then Npos XH else N0) (N.mul (Npos (XO XH)) (n_of_digits l'))

(** val n_of_ascii : ascii -> n **)

let n_of_ascii = function
| Ascii (a0, a1, a2, a3, a4, a5, a6, a7) ->
  n_of_digits
    (a0 :: (a1 :: (a2 :: (a3 :: (a4 :: (a5 :: (a6 :: (a7 :: []))))))))

module Z =
 struct
  (** val double : z -> z **)

  let double = function
  | Z0 -> Z0
  | Zpos p -> Zpos (XO p)
  | Zneg p -> Zneg (XO p)

  (** val succ_double : z -> z **)

  let succ_double = function
  | Z0 -> Zpos XH
  | Zpos p -> Zpos (XI p)
  | Zneg p -> Zneg (Coq_Pos.pred_double p)

  (** val pred_double : z -> z **)

  let pred_double = function
  | Z0 -> Zneg XH
  | Zpos p -> Zpos (Coq_Pos.pred_double p)
  | Zneg p -> Zneg (XI p)

  (** val pos_sub : positive -> positive -> z **)

  let rec pos_sub x y =
    match x with
    | XI p ->
      (match y with
       | XI q -> double (pos_sub p q)
       | XO q -> succ_double (pos_sub p q)
       | XH -> Zpos (XO p))
    | XO p ->
      (match y with
       | XI q -> pred_double (pos_sub p q)
       | XO q -> double (pos_sub p q)
       | XH -> Zpos (Coq_Pos.pred_double p))
    | XH ->
      (match y with
       | XI q -> Zneg (XO q)
       | XO q -> Zneg (Coq_Pos.pred_double q)
       | XH -> Z0)

  (** val add : z -> z -> z **)

  let add x y =
    match x with
    | Z0 -> y
    | Zpos x' ->
      (match y with
       | Z0 -> x
       | Zpos y' -> Zpos (Coq_Pos.add x' y')
       | Zneg y' -> pos_sub x' y')
    | Zneg x' ->
      (match y with
       | Z0 -> x
       | Zpos y' -> pos_sub y' x'
       | Zneg y' -> Zneg (Coq_Pos.add x' y'))

  (** val opp : z -> z **)

  let opp = function
  | Z0 -> Z0
  | Zpos x0 -> Zneg x0
  | Zneg x0 -> Zpos x0

  (** val sub : z -> z -> z **)

  let sub m n0 =
    add m (opp n0)

  (** val mul : z -> z -> z **)

  let mul x y =
    match x with
    | Z0 -> Z0
    | Zpos x' ->
      (match y with
       | Z0 -> Z0
       | Zpos y' -> Zpos (Coq_Pos.mul x' y')
       | Zneg y' -> Zneg (Coq_Pos.mul x' y'))
    | Zneg x' ->
      (match y with
       | Z0 -> Z0
       | Zpos y' -> Zneg (Coq_Pos.mul x' y')
       | Zneg y' -> Zpos (Coq_Pos.mul x' y'))

  (** val pow_pos : z -> positive -> z **)

  let pow_pos z0 =
    Coq_Pos.iter (mul z0) (Zpos XH)

  (** val pow : z -> z -> z **)

  let pow x = function
  | Z0 -> Zpos XH
  | Zpos p -> pow_pos x p
  | Zneg _ -> Z0

  (** val compare : z -> z -> comparison **)

  let compare x y =
    match x with
    | Z0 -> (match y with
             | Z0 -> Eq
             | Zpos _ -> Lt
             | Zneg _ -> Gt)
    | Zpos x' -> (match y with
                  | Zpos y' -> Coq_Pos.compare x' y'
                  | _ -> Gt)
    | Zneg x' ->
      (match y with
       | Zneg y' -> compOpp (Coq_Pos.compare x' y')
       | _ -> Lt)

  (** val leb : z -> z -> bool **)

  let leb x y =
    match compare x y with
    | Gt -> false
    | _ -> true

  (** val ltb : z -> z -> bool **)

  let ltb x y =
    match compare x y with
    | Lt -> true
    | _ -> false

  (** val gtb : z -> z -> bool **)

  let gtb x y =
    match compare x y with
    | Gt -> true
    | _ -> false

  (** val eqb : z -> z -> bool **)

  let eqb x y =
    match x with
    | Z0 -> (match y with
             | Z0 -> true
             | _ -> false)
    | Zpos p -> (match y with
                 | Zpos q -> Coq_Pos.eqb p q
                 | _ -> false)
    | Zneg p -> (match y with
                 | Zneg q -> Coq_Pos.eqb p q
                 | _ -> false)

  (** val max : z -> z -> z **)

  let max n0 m =
    match compare n0 m with
    | Lt -> m
    | _ -> n0

  (** val min : z -> z -> z **)

  let min n0 m =
    match compare n0 m with
    | Gt -> m
    | _ -> n0

  (** val abs : z -> z **)

  let abs = function
  | Zneg p -> Zpos p
  | x -> x

  (** val abs_N : z -> n **)

  let abs_N = function
  | Z0 -> N0
  | Zpos p -> Npos p
  | Zneg p -> Npos p

  (** val to_nat : z -> nat **)

  let to_nat = function
  | Zpos p -> Coq_Pos.to_nat p
  | _ -> O

  (** val to_N : z -> n **)

  let to_N = function
  | Zpos p -> Npos p
  | _ -> N0

  (** val of_nat : nat -> z **)

  let of_nat = function
  | O -> Z0
  | S n1 -> Zpos (Coq_Pos.of_succ_nat n1)

  (** val of_N : n -> z **)

  let of_N = function
  | N0 -> Z0
  | Npos p -> Zpos p

  (** val pos_div_eucl : positive -> z -> z * z **)

  let rec pos_div_eucl a b =
    match a with
    | XI a' ->
      let (q, r) = pos_div_eucl a' b in
      let r' = add (mul (Zpos (XO XH)) r) (Zpos XH) in
      if ltb r' b
      then ((mul (Zpos (XO XH)) q), r')
      else ((add (mul (Zpos (XO XH)) q) (Zpos XH)), (sub r' b))
    | XO a' ->
      let (q, r) = pos_div_eucl a' b in
      let r' = mul (Zpos (XO XH)) r in
      if ltb r' b
      then ((mul (Zpos (XO XH)) q), r')
      else ((add (mul (Zpos (XO XH)) q) (Zpos XH)), (sub r' b))
    | XH -> if leb (Zpos (XO XH)) b then (Z0, (Zpos XH)) else ((Zpos XH), Z0)

  (** val div_eucl : z -> z -> z * z **)

  let div_eucl a b =
    match a with
    | Z0 -> (Z0, Z0)
    | Zpos a' ->
      (match b with
       | Z0 -> (Z0, a)
       | Zpos _ -> pos_div_eucl a' b
       | Zneg b' ->
         let (q, r) = pos_div_eucl a' (Zpos b') in
         (match r with
          | Z0 -> ((opp q), Z0)
          | _ -> ((opp (add q (Zpos XH))), (add b r))))
    | Zneg a' ->
      (match b with
       | Z0 -> (Z0, a)
       | Zpos _ ->
         let (q, r) = pos_div_eucl a' b in
         (match r with
          | Z0 -> ((opp q), Z0)
          | _ -> ((opp (add q (Zpos XH))), (sub b r)))
       | Zneg b' -> let (q, r) = pos_div_eucl a' (Zpos b') in (q, (opp r)))

  (** val div : z -> z -> z **)

  let div a b =
    let (q, _) = div_eucl a b in q

  (** val modulo : z -> z -> z **)

  let modulo a b =
    let (_, r) = div_eucl a b in r
 end

type string =
| EmptyString
| String of ascii * string

(** val eqb1 : string -> string -> bool **)

let rec eqb1 s1 s2 =
  match s1 with
  | EmptyString ->
    (match s2 with
     | EmptyString -> true
     | String (_, _) -> false)
  | String (c1, s1') ->
    (match s2 with
     | EmptyString -> false
     | String (c2, s2') -> if eqb0 c1 c2 then eqb1 s1' s2' else false)

type bits = bool list

(** val n_of_bits : bits -> n **)

let n_of_bits l =
  fold_left (fun acc b -> N.add (N.mul (Npos (XO XH)) acc) (N.b2n b)) l N0

(** val bits_of_le : nat -> n -> bits **)

let rec bits_of_le w v =
  match w with
  | O -> []
  | S w' -> (N.odd v) :: (bits_of_le w' (N.div2 v))

(** val bits_of : nat -> n -> bits **)

let bits_of w v =
  rev (bits_of_le w v)

(** val zeros : nat -> bits **)

let zeros n0 =
  repeat false n0

(** val ones : nat -> bits **)

let ones n0 =
  repeat true n0

(** val set_nth : nat -> 'a1 -> 'a1 list -> 'a1 list **)

let rec set_nth n0 x = function
| [] -> []
| h :: t -> (match n0 with
             | O -> x :: t
             | S n' -> h :: (set_nth n' x t))

(** val set_nth_opt : nat -> 'a1 -> 'a1 list -> 'a1 list option **)

let rec set_nth_opt n0 x = function
| [] -> None
| h :: t ->
  (match n0 with
   | O -> Some (x :: t)
   | S n' ->
     (match set_nth_opt n' x t with
      | Some t' -> Some (h :: t')
      | None -> None))

(** val short : nat -> 'a1 list -> bool **)

let rec short n0 l =
  match n0 with
  | O -> false
  | S n' -> (match l with
             | [] -> true
             | _ :: t -> short n' t)

type sx =
| SN of n
| SZ of z
| SB of bool
| SBits of bits
| SBytes of n list
| SA of string
| SL of sx list

(** val sx_err : string -> sx **)

let sx_err msg0 =
  SL ((SA (String ((Ascii (true, false, true, true, false, true, true,
    false)), (String ((Ascii (true, true, true, true, false, true, true,
    false)), (String ((Ascii (false, false, true, false, false, true, true,
    false)), (String ((Ascii (true, false, true, false, false, true, true,
    false)), (String ((Ascii (false, false, true, true, false, true, true,
    false)), (String ((Ascii (true, false, true, true, false, true, false,
    false)), (String ((Ascii (true, true, false, false, true, true, true,
    false)), (String ((Ascii (false, false, false, true, false, true, true,
    false)), (String ((Ascii (true, false, false, false, false, true, true,
    false)), (String ((Ascii (false, false, false, false, true, true, true,
    false)), (String ((Ascii (true, false, true, false, false, true, true,
    false)), (String ((Ascii (true, false, true, true, false, true, false,
    false)), (String ((Ascii (true, false, true, false, false, true, true,
    false)), (String ((Ascii (false, true, false, false, true, true, true,
    false)), (String ((Ascii (false, true, false, false, true, true, true,
    false)), (String ((Ascii (true, true, true, true, false, true, true,
    false)), (String ((Ascii (false, true, false, false, true, true, true,
    false)), EmptyString))))))))))))))))))))))))))))))))))) :: ((SA
    msg0) :: []))

(** val sx_nat : nat -> sx **)

let sx_nat n0 =
  SN (N.of_nat n0)

type 'a res =
| Ok of 'a
| Err of n
| Panic of n

(** val bind : 'a1 res -> ('a1 -> 'a2 res) -> 'a2 res **)

let bind r f =
  match r with
  | Ok a -> f a
  | Err e -> Err e
  | Panic p -> Panic p

(** val res_map : ('a1 -> 'a2) -> 'a1 res -> 'a2 res **)

let res_map f = function
| Ok a -> Ok (f a)
| Err e -> Err e
| Panic p -> Panic p

(** val eNotEnoughBits : n **)

let eNotEnoughBits =
  Npos XH

(** val eOverflow : n **)

let eOverflow =
  Npos (XO XH)

(** val eTooManyBits : n **)

let eTooManyBits =
  Npos (XI XH)

(** val eZeroSize : n **)

let eZeroSize =
  Npos (XO (XO XH))

(** val eTooSmall : n **)

let eTooSmall =
  Npos (XI (XO XH))

(** val eInvalidHex : n **)

let eInvalidHex =
  Npos (XO (XI XH))

(** val eNotEnoughRefs : n **)

let eNotEnoughRefs =
  Npos (XO (XO (XO XH)))

(** val eRefsOverflow : n **)

let eRefsOverflow =
  Npos (XI (XO (XO XH)))

(** val eOther : n **)

let eOther =
  Npos (XO (XI (XO XH)))

(** val eFuel : n **)

let eFuel =
  Npos (XI (XI (XO (XO (XO (XI XH))))))

(** val pIndex : n **)

let pIndex =
  Npos XH

(** val pSlice : n **)

let pSlice =
  Npos (XO XH)

(** val pNil : n **)

let pNil =
  Npos (XO (XO XH))

(** val pShift : n **)

let pShift =
  Npos (XO (XI XH))

type bs = { buf : bits; cap : nat; len : nat; rcur : nat }

(** val nbytes : nat -> nat **)

let nbytes n0 =
  Nat.div (add n0 (S (S (S (S (S (S (S O)))))))) (S (S (S (S (S (S (S (S
    O))))))))

(** val new_bs : nat -> bs **)

let new_bs n0 =
  { buf = (zeros (mul (S (S (S (S (S (S (S (S O)))))))) (nbytes n0))); cap =
    n0; len = O; rcur = O }

(** val avail_read : bs -> nat **)

let avail_read s =
  sub s.len s.rcur

(** val avail_write : bs -> nat **)

let avail_write s =
  sub s.cap s.len

(** val write_bit : bool -> bs -> bs * unit res **)

let write_bit v s =
  if Nat.leb s.cap s.len
  then (s, (Err eOverflow))
  else (match set_nth_opt s.len v s.buf with
        | Some b' ->
          ({ buf = b'; cap = s.cap; len = (S s.len); rcur = s.rcur }, (Ok ()))
        | None -> (s, (Panic pIndex)))

(** val write_bits : bits -> bs -> bs * unit res **)

let rec write_bits l s =
  match l with
  | [] -> (s, (Ok ()))
  | b :: t ->
    let (s', r0) = write_bit b s in
    (match r0 with
     | Ok _ -> write_bits t s'
     | x -> (s', x))

(** val write_uint : n -> nat -> bs -> bs * unit res **)

let write_uint v w s =
  write_bits (bits_of w v) s

(** val two64 : n **)

let two64 =
  Npos (XO (XO (XO (XO (XO (XO (XO (XO (XO (XO (XO (XO (XO (XO (XO (XO (XO
    (XO (XO (XO (XO (XO (XO (XO (XO (XO (XO (XO (XO (XO (XO (XO (XO (XO (XO
    (XO (XO (XO (XO (XO (XO (XO (XO (XO (XO (XO (XO (XO (XO (XO (XO (XO (XO
    (XO (XO (XO (XO (XO (XO (XO (XO (XO (XO (XO
    XH))))))))))))))))))))))))))))))))))))))))))))))))))))))))))))))))

(** val two63 : z **)

let two63 =
  Zpos (XO (XO (XO (XO (XO (XO (XO (XO (XO (XO (XO (XO (XO (XO (XO (XO (XO
    (XO (XO (XO (XO (XO (XO (XO (XO (XO (XO (XO (XO (XO (XO (XO (XO (XO (XO
    (XO (XO (XO (XO (XO (XO (XO (XO (XO (XO (XO (XO (XO (XO (XO (XO (XO (XO
    (XO (XO (XO (XO (XO (XO (XO (XO (XO (XO
    XH)))))))))))))))))))))))))))))))))))))))))))))))))))))))))))))))

(** val u64_of_Z : z -> n **)

let u64_of_Z z0 =
  Z.to_N (Z.modulo z0 (Z.of_N two64))

(** val write_int : z -> nat -> bs -> bs * unit res **)

let write_int v w s =
  match w with
  | O ->
    if Z.ltb v Z0
    then let (s', r0) = write_bit true s in
         (match r0 with
          | Ok _ -> (s', (Panic pShift))
          | x -> (s', x))
    else write_bit false s
  | S w' ->
    (match w' with
     | O ->
       if Z.eqb v (Zneg XH)
       then write_bit true s
       else if Z.eqb v Z0 then write_bit false s else (s, (Ok ()))
     | S _ ->
       if Z.ltb v Z0
       then let (s', r0) = write_bit true s in
            (match r0 with
             | Ok _ ->
               let p =
                 if Nat.ltb w' (S (S (S (S (S (S (S (S (S (S (S (S (S (S (S
                      (S (S (S (S (S (S (S (S (S (S (S (S (S (S (S (S (S (S
                      (S (S (S (S (S (S (S (S (S (S (S (S (S (S (S (S (S (S
                      (S (S (S (S (S (S (S (S (S (S (S (S (S
                      O))))))))))))))))))))))))))))))))))))))))))))))))))))))))))))))))
                 then Z.pow (Zpos (XO XH)) (Z.of_nat w')
                 else Z0
               in
               write_uint (u64_of_Z (Z.add p v)) w' s'
             | x -> (s', x))
       else let (s', r0) = write_bit false s in
            (match r0 with
             | Ok _ -> write_uint (u64_of_Z v) w' s'
             | x -> (s', x)))

(** val write_big_uint : n -> nat -> bs -> bs * unit res **)

let write_big_uint v w s =
  if (||) (Nat.eqb w O) (N.ltb (N.of_nat w) (N.size v))
  then (s, (Err eTooSmall))
  else write_bits (bits_of w v) s

(** val int64_low : z -> z **)

let int64_low z0 =
  let m = Z.modulo (Z.abs z0) (Z.of_N two64) in
  let m' = if Z.ltb m two63 then m else Z.sub m (Z.of_N two64) in
  if Z.ltb z0 Z0
  then let n0 = Z.opp m in
       let r = Z.modulo n0 (Z.of_N two64) in
       if Z.ltb r two63 then r else Z.sub r (Z.of_N two64)
  else m'

(** val write_big_int : z -> nat -> bs -> bs * unit res **)

let write_big_int v w s =
  if Nat.eqb w (S O)
  then if Z.eqb (int64_low v) (Zneg XH)
       then write_bit true s
       else if Z.eqb (int64_low v) Z0
            then write_bit false s
            else (s, (Err eTooSmall))
  else if Z.ltb v Z0
       then let (s', r0) = write_bit true s in
            (match r0 with
             | Ok _ ->
               let nb =
                 Z.add (Z.pow (Zpos (XO XH)) (Z.of_nat (sub w (S O)))) v
               in
               if Z.ltb nb Z0
               then if (||) (Nat.eqb (sub w (S O)) O)
                         (N.ltb (N.of_nat (sub w (S O)))
                           (N.size (Z.to_N (Z.opp nb))))
                    then (s', (Err eTooSmall))
                    else write_bits
                           (bits_of (sub w (S O))
                             (Z.to_N
                               (Z.modulo nb
                                 (Z.pow (Zpos (XO XH))
                                   (Z.of_nat (sub w (S O))))))) s'
               else write_big_uint (Z.to_N nb) (sub w (S O)) s'
             | x -> (s', x))
       else let (s', r0) = write_bit false s in
            (match r0 with
             | Ok _ -> write_big_uint (Z.to_N v) (sub w (S O)) s'
             | x -> (s', x))

(** val bytes_bits : n list -> bits **)

let rec bytes_bits = function
| [] -> []
| b :: t -> app (bits_of (S (S (S (S (S (S (S (S O)))))))) b) (bytes_bits t)

(** val write_bytes : n list -> bs -> bs * unit res **)

let write_bytes l s =
  write_bits (bytes_bits l) s

(** val write_unary : nat -> bs -> bs * unit res **)

let write_unary n0 s =
  let first =
    if Nat.ltb n0 (S (S (S (S (S (S (S (S (S (S (S (S (S (S (S (S (S (S (S (S
         (S (S (S (S (S (S (S (S (S (S (S (S (S (S (S (S (S (S (S (S (S (S (S
         (S (S (S (S (S (S (S (S (S (S (S (S (S (S (S (S (S (S (S (S
         O)))))))))))))))))))))))))))))))))))))))))))))))))))))))))))))))
    then write_uint (N.sub (N.pow (Npos (XO XH)) (N.of_nat n0)) (Npos XH)) n0
           s
    else write_bits (ones n0) s
  in
  let (s', r0) = first in
  (match r0 with
   | Ok _ -> write_bit false s'
   | _ -> first)

(** val get_bit : nat -> bs -> bool **)

let get_bit n0 s =
  nth n0 s.buf false

(** val read_bit : bs -> bs * bool res **)

let read_bit s =
  if Nat.ltb (avail_read s) (S O)
  then (s, (Err eNotEnoughBits))
  else if short (S s.rcur) s.buf
       then (s, (Panic pIndex))
       else ({ buf = s.buf; cap = s.cap; len = s.len; rcur = (S s.rcur) },
              (Ok (get_bit s.rcur s)))

(** val skip : nat -> bs -> bs * unit res **)

let skip n0 s =
  if Nat.ltb (avail_read s) n0
  then (s, (Err eNotEnoughBits))
  else ({ buf = s.buf; cap = s.cap; len = s.len; rcur = (add s.rcur n0) },
         (Ok ()))

(** val load_be : nat -> nat -> bs -> n **)

let load_be k0 c s =
  n_of_bits
    (firstn (mul (S (S (S (S (S (S (S (S O)))))))) k0)
      (app (skipn (mul (S (S (S (S (S (S (S (S O)))))))) c) s.buf)
        (zeros (mul (S (S (S (S (S (S (S (S O)))))))) k0))))

(** val set_rcur : bs -> nat -> bs **)

let set_rcur s r =
  { buf = s.buf; cap = s.cap; len = s.len; rcur = r }

(** val read_uint : nat -> bs -> bs * n res **)

let read_uint w s =
  if Nat.ltb (S (S (S (S (S (S (S (S (S (S (S (S (S (S (S (S (S (S (S (S (S
       (S (S (S (S (S (S (S (S (S (S (S (S (S (S (S (S (S (S (S (S (S (S (S
       (S (S (S (S (S (S (S (S (S (S (S (S (S (S (S (S (S (S (S (S
       O)))))))))))))))))))))))))))))))))))))))))))))))))))))))))))))))) w
  then (s, (Err eTooManyBits))
  else if Nat.ltb (avail_read s) w
       then (s, (Err eNotEnoughBits))
       else if (&&)
                 (Nat.eqb
                   (Nat.modulo s.rcur (S (S (S (S (S (S (S (S O))))))))) O)
                 (Nat.eqb (Nat.modulo w (S (S (S (S (S (S (S (S O))))))))) O)
            then let l = Nat.div w (S (S (S (S (S (S (S (S O)))))))) in
                 let c = Nat.div s.rcur (S (S (S (S (S (S (S (S O)))))))) in
                 if short (mul (S (S (S (S (S (S (S (S O)))))))) (add c l))
                      s.buf
                 then (s, (Panic pSlice))
                 else ((set_rcur s (add s.rcur w)), (Ok
                        (n_of_bits
                          (app
                            (zeros
                              (mul (S (S (S (S (S (S (S (S O))))))))
                                (sub (S (S (S (S (S (S (S (S O)))))))) l)))
                            (firstn (mul (S (S (S (S (S (S (S (S O)))))))) l)
                              (skipn
                                (mul (S (S (S (S (S (S (S (S O)))))))) c)
                                s.buf))))))
            else if Nat.ltb w (S (S (S (S (S (S (S (S (S (S (S (S (S (S (S (S
                      (S (S (S (S (S (S (S (S (S (S (S (S (S (S (S (S (S (S
                      (S (S (S (S (S (S (S (S (S (S (S (S (S (S (S (S (S (S
                      (S (S (S (S (S
                      O)))))))))))))))))))))))))))))))))))))))))))))))))))))))))
                 then if short
                           (mul (S (S (S (S (S (S (S (S O))))))))
                             (Nat.div s.rcur (S (S (S (S (S (S (S (S
                               O)))))))))) s.buf
                      then (s, (Panic pSlice))
                      else let u64 =
                             load_be (S (S (S (S (S (S (S (S O))))))))
                               (Nat.div s.rcur (S (S (S (S (S (S (S (S
                                 O))))))))) s
                           in
                           let sh =
                             sub
                               (sub (S (S (S (S (S (S (S (S (S (S (S (S (S (S
                                 (S (S (S (S (S (S (S (S (S (S (S (S (S (S (S
                                 (S (S (S (S (S (S (S (S (S (S (S (S (S (S (S
                                 (S (S (S (S (S (S (S (S (S (S (S (S (S (S (S
                                 (S (S (S (S (S
                                 O))))))))))))))))))))))))))))))))))))))))))))))))))))))))))))))))
                                 w)
                               (Nat.modulo s.rcur (S (S (S (S (S (S (S (S
                                 O)))))))))
                           in
                           ((set_rcur s (add s.rcur w)), (Ok
                           (N.coq_land (N.shiftr u64 (N.of_nat sh))
                             (N.sub (N.pow (Npos (XO XH)) (N.of_nat w)) (Npos
                               XH)))))
                 else if short (add s.rcur w) s.buf
                      then (s, (Panic pIndex))
                      else ((set_rcur s (add s.rcur w)), (Ok
                             (n_of_bits (firstn w (skipn s.rcur s.buf)))))

(** val pick_uint : nat -> bs -> bs * n res **)

let pick_uint w s =
  let (s', r) = read_uint w s in
  (match r with
   | Ok v -> ((set_rcur s' (sub s'.rcur w)), (Ok v))
   | _ -> (s', r))

(** val i64_of_N : n -> z **)

let i64_of_N n0 =
  let m = Z.modulo (Z.of_N n0) (Z.of_N two64) in
  if Z.ltb m two63 then m else Z.sub m (Z.of_N two64)

(** val read_int : nat -> bs -> bs * z res **)

let read_int w s =
  if Nat.ltb (S (S (S (S (S (S (S (S (S (S (S (S (S (S (S (S (S (S (S (S (S
       (S (S (S (S (S (S (S (S (S (S (S (S (S (S (S (S (S (S (S (S (S (S (S
       (S (S (S (S (S (S (S (S (S (S (S (S (S (S (S (S (S (S (S (S
       O)))))))))))))))))))))))))))))))))))))))))))))))))))))))))))))))) w
  then (s, (Err eTooManyBits))
  else if Nat.eqb w O
       then (s, (Err eZeroSize))
       else if Nat.ltb (avail_read s) w
            then (s, (Err eNotEnoughBits))
            else if short (S s.rcur) s.buf
                 then (s, (Panic pIndex))
                 else let sign = get_bit s.rcur s in
                      let s1 = set_rcur s (S s.rcur) in
                      if Nat.eqb w (S O)
                      then (s1, (Ok (if sign then Zneg XH else Z0)))
                      else let (s2, r) = read_uint (sub w (S O)) s1 in
                           (match r with
                            | Ok base ->
                              if sign
                              then (s2, (Ok
                                     (i64_of_N
                                       (N.modulo
                                         (N.sub (N.add base two64)
                                           (N.pow (Npos (XO XH))
                                             (N.of_nat (sub w (S O))))) two64))))
                              else (s2, (Ok (i64_of_N base)))
                            | Err e -> (s2, (Err e))
                            | Panic p -> (s2, (Panic p)))

(** val read_byte : bs -> bs * n res **)

let read_byte s =
  if Nat.ltb (avail_read s) (S (S (S (S (S (S (S (S O))))))))
  then (s, (Err eNotEnoughBits))
  else let c = Nat.div s.rcur (S (S (S (S (S (S (S (S O)))))))) in
       if Nat.eqb (Nat.modulo s.rcur (S (S (S (S (S (S (S (S O))))))))) O
       then if short (mul (S (S (S (S (S (S (S (S O)))))))) (add c (S O)))
                 s.buf
            then (s, (Panic pIndex))
            else ((set_rcur s (add s.rcur (S (S (S (S (S (S (S (S O)))))))))),
                   (Ok
                   (n_of_bits
                     (firstn (S (S (S (S (S (S (S (S O))))))))
                       (skipn (mul (S (S (S (S (S (S (S (S O)))))))) c) s.buf)))))
       else if short
                 (mul (S (S (S (S (S (S (S (S O)))))))) (add c (S (S O))))
                 s.buf
            then (s, (Panic pSlice))
            else let u16 =
                   n_of_bits
                     (firstn (S (S (S (S (S (S (S (S (S (S (S (S (S (S (S (S
                       O))))))))))))))))
                       (skipn (mul (S (S (S (S (S (S (S (S O)))))))) c) s.buf))
                 in
                 let sh =
                   N.shiftr u16
                     (N.of_nat
                       (sub (S (S (S (S (S (S (S (S O))))))))
                         (Nat.modulo s.rcur (S (S (S (S (S (S (S (S O)))))))))))
                 in
                 ((set_rcur s (add s.rcur (S (S (S (S (S (S (S (S O)))))))))),
                 (Ok
                 (N.modulo sh (Npos (XO (XO (XO (XO (XO (XO (XO (XO
                   XH))))))))))))

(** val read_byte_loop : nat -> bs -> n list -> bs * n list res **)

let rec read_byte_loop n0 s acc =
  match n0 with
  | O -> (s, (Ok (rev acc)))
  | S n' ->
    let (s', r) = read_byte s in
    (match r with
     | Ok b -> read_byte_loop n' s' (b :: acc)
     | Err e -> (s', (Err e))
     | Panic p -> (s', (Panic p)))

(** val bytes_of_bits : nat -> bits -> n list **)

let rec bytes_of_bits n0 l =
  match n0 with
  | O -> []
  | S n' ->
    (n_of_bits (firstn (S (S (S (S (S (S (S (S O)))))))) l)) :: (bytes_of_bits
                                                                  n'
                                                                  (skipn (S
                                                                    (S (S (S
                                                                    (S (S (S
                                                                    (S
                                                                    O))))))))
                                                                    l))

(** val read_bytes : nat -> bs -> bs * n list res **)

let read_bytes n0 s =
  if Nat.ltb (avail_read s) (mul n0 (S (S (S (S (S (S (S (S O)))))))))
  then (s, (Err eNotEnoughBits))
  else if Nat.eqb (Nat.modulo s.rcur (S (S (S (S (S (S (S (S O))))))))) O
       then if short
                 (mul (S (S (S (S (S (S (S (S O))))))))
                   (add (Nat.div s.rcur (S (S (S (S (S (S (S (S O))))))))) n0))
                 s.buf
            then (s, (Panic pSlice))
            else ((set_rcur s
                    (add s.rcur (mul n0 (S (S (S (S (S (S (S (S O))))))))))),
                   (Ok
                   (bytes_of_bits n0
                     (skipn
                       (mul (S (S (S (S (S (S (S (S O))))))))
                         (Nat.div s.rcur (S (S (S (S (S (S (S (S O))))))))))
                       s.buf))))
       else read_byte_loop n0 s []

(** val read_big_uint : nat -> bs -> bs * n res **)

let read_big_uint w s =
  if Nat.ltb (avail_read s) w
  then (s, (Err eNotEnoughBits))
  else if Nat.eqb w O
       then (s, (Ok N0))
       else let k0 = Nat.modulo w (S (S (S (S (S (S (S (S O)))))))) in
            let first = if Nat.eqb k0 O then (s, (Ok N0)) else read_uint k0 s
            in
            let (s1, r) = first in
            (match r with
             | Ok hi ->
               let (s2, r0) =
                 read_bytes (Nat.div w (S (S (S (S (S (S (S (S O))))))))) s1
               in
               (match r0 with
                | Ok bytes1 ->
                  (s2, (Ok
                    (N.add
                      (N.mul hi
                        (N.pow (Npos (XO XH))
                          (N.of_nat
                            (mul (S (S (S (S (S (S (S (S O))))))))
                              (Nat.div w (S (S (S (S (S (S (S (S O)))))))))))))
                      (n_of_bits (bytes_bits bytes1)))))
                | Err e -> (s2, (Err e))
                | Panic p -> (s2, (Panic p)))
             | x -> (s1, x))

(** val read_big_int : nat -> bs -> bs * z res **)

let read_big_int w s =
  if Nat.ltb (avail_read s) w
  then (s, (Err eNotEnoughBits))
  else if Nat.eqb w O
       then (s, (Ok Z0))
       else if short (S s.rcur) s.buf
            then (s, (Panic pIndex))
            else let sign = get_bit s.rcur s in
                 let s1 = set_rcur s (S s.rcur) in
                 if Nat.eqb w (S O)
                 then (s1, (Ok (if sign then Zneg XH else Z0)))
                 else let (s2, r) = read_big_uint (sub w (S O)) s1 in
                      (match r with
                       | Ok base ->
                         (s2, (Ok
                           (if sign
                            then Z.sub (Z.of_N base)
                                   (Z.pow (Zpos (XO XH))
                                     (Z.of_nat (sub w (S O))))
                            else Z.of_N base)))
                       | Err e -> (s2, (Err e))
                       | Panic p -> (s2, (Panic p)))

(** val read_bits : nat -> bs -> bs * bits res **)

let read_bits n0 s =
  if Nat.ltb (avail_read s) n0
  then (s, (Err eNotEnoughBits))
  else if Nat.eqb (Nat.modulo s.rcur (S (S (S (S (S (S (S (S O))))))))) O
       then if short
                 (mul (S (S (S (S (S (S (S (S O))))))))
                   (add (Nat.div s.rcur (S (S (S (S (S (S (S (S O)))))))))
                     (nbytes n0))) s.buf
            then (s, (Panic pSlice))
            else ((set_rcur s (add s.rcur n0)), (Ok
                   (firstn n0
                     (skipn
                       (mul (S (S (S (S (S (S (S (S O))))))))
                         (Nat.div s.rcur (S (S (S (S (S (S (S (S O))))))))))
                       s.buf))))
       else if short (add s.rcur n0) s.buf
            then (s, (Panic pIndex))
            else ((set_rcur s (add s.rcur n0)), (Ok
                   (firstn n0 (skipn s.rcur s.buf))))

(** val read_unary_loop : nat -> bs -> nat -> bs * nat res **)

let rec read_unary_loop fuel s acc =
  match fuel with
  | O -> (s, (Err eFuel))
  | S f ->
    let (s', r) = read_bit s in
    (match r with
     | Ok a -> if a then read_unary_loop f s' (S acc) else (s', (Ok acc))
     | Err e -> (s', (Err e))
     | Panic p -> (s', (Panic p)))

(** val read_unary : bs -> bs * nat res **)

let read_unary s =
  read_unary_loop (S (avail_read s)) s O

(** val reset_counter : bs -> bs **)

let reset_counter s =
  set_rcur s O

(** val abs0 : bs -> bits **)

let abs0 s =
  firstn s.len s.buf

(** val nibble : bits -> n **)

let nibble =
  n_of_bits

(** val nibbles : nat -> bits -> n list **)

let rec nibbles fuel l =
  match fuel with
  | O -> []
  | S f ->
    (match l with
     | [] -> []
     | _ :: _ ->
       (nibble (firstn (S (S (S (S O)))) l)) :: (nibbles f
                                                  (skipn (S (S (S (S O)))) l)))

(** val to_fift : bits -> n list * bool **)

let to_fift l =
  if Nat.eqb (Nat.modulo (length l) (S (S (S (S O))))) O
  then ((nibbles (length l) l), false)
  else let pad0 =
         sub
           (sub (S (S (S (S O)))) (Nat.modulo (length l) (S (S (S (S O))))))
           (S O)
       in
       ((nibbles (S (length l)) (app l (true :: (zeros pad0)))), true)

(** val strip_tag : n -> bits option **)

let strip_tag d =
  let b = bits_of (S (S (S (S O)))) d in
  (match b with
   | [] -> None
   | x :: l ->
     (match l with
      | [] -> None
      | y :: l0 ->
        if y
        then (match l0 with
              | [] -> None
              | z0 :: l1 ->
                if z0
                then (match l1 with
                      | [] -> None
                      | b0 :: l2 ->
                        if b0
                        then (match l2 with
                              | [] -> Some (x :: (y :: (z0 :: [])))
                              | _ :: _ -> None)
                        else (match l2 with
                              | [] -> Some (x :: (y :: []))
                              | _ :: _ -> None))
                else (match l1 with
                      | [] -> None
                      | b0 :: l2 ->
                        if b0
                        then (match l2 with
                              | [] -> Some (x :: (y :: (z0 :: [])))
                              | _ :: _ -> None)
                        else (match l2 with
                              | [] -> Some (x :: [])
                              | _ :: _ -> None)))
        else (match l0 with
              | [] -> None
              | z0 :: l1 ->
                if z0
                then (match l1 with
                      | [] -> None
                      | b0 :: l2 ->
                        if b0
                        then (match l2 with
                              | [] -> Some (x :: (y :: (z0 :: [])))
                              | _ :: _ -> None)
                        else (match l2 with
                              | [] -> Some (x :: (y :: []))
                              | _ :: _ -> None))
                else (match l1 with
                      | [] -> None
                      | b0 :: l2 ->
                        if b0
                        then (match l2 with
                              | [] -> Some (x :: (y :: (z0 :: [])))
                              | _ :: _ -> None)
                        else None))))

(** val concat_nibbles : n list -> bits **)

let rec concat_nibbles = function
| [] -> []
| d :: t -> app (bits_of (S (S (S (S O)))) d) (concat_nibbles t)

(** val out_unit : unit res -> sx **)

let out_unit = function
| Ok _ ->
  SA (String ((Ascii (true, true, true, true, false, true, true, false)),
    (String ((Ascii (true, true, false, true, false, true, true, false)),
    EmptyString))))
| Err _ ->
  SA (String ((Ascii (true, false, true, false, false, true, true, false)),
    (String ((Ascii (false, true, false, false, true, true, true, false)),
    (String ((Ascii (false, true, false, false, true, true, true, false)),
    EmptyString))))))
| Panic _ ->
  SA (String ((Ascii (false, false, false, false, true, true, true, false)),
    (String ((Ascii (true, false, false, false, false, true, true, false)),
    (String ((Ascii (false, true, true, true, false, true, true, false)),
    (String ((Ascii (true, false, false, true, false, true, true, false)),
    (String ((Ascii (true, true, false, false, false, true, true, false)),
    EmptyString))))))))))

(** val out_of : ('a1 -> sx) -> 'a1 res -> sx **)

let out_of f = function
| Ok a -> f a
| Err _ ->
  SA (String ((Ascii (true, false, true, false, false, true, true, false)),
    (String ((Ascii (false, true, false, false, true, true, true, false)),
    (String ((Ascii (false, true, false, false, true, true, true, false)),
    EmptyString))))))
| Panic _ ->
  SA (String ((Ascii (false, false, false, false, true, true, true, false)),
    (String ((Ascii (true, false, false, false, false, true, true, false)),
    (String ((Ascii (false, true, true, true, false, true, true, false)),
    (String ((Ascii (true, false, false, true, false, true, true, false)),
    (String ((Ascii (true, true, false, false, false, true, true, false)),
    EmptyString))))))))))

(** val to_fift_sx : bits -> sx **)

let to_fift_sx l =
  let (ds, u) = to_fift l in
  SL ((SL (map (fun x -> SN x) ds)) :: ((SB u) :: []))

(** val step : bs -> sx -> bs * sx **)

let step s = function
| SL l ->
  (match l with
   | [] ->
     (s,
       (sx_err (String ((Ascii (false, true, false, false, false, true, true,
         false)), (String ((Ascii (true, false, false, false, false, true,
         true, false)), (String ((Ascii (false, false, true, false, false,
         true, true, false)), (String ((Ascii (false, false, false, false,
         false, true, false, false)), (String ((Ascii (true, true, true,
         true, false, true, true, false)), (String ((Ascii (false, false,
         false, false, true, true, true, false)), EmptyString))))))))))))))
   | s0 :: args ->
     (match s0 with
      | SA nm ->
        let is = fun x -> eqb1 nm x in
        (match args with
         | [] ->
           if is (String ((Ascii (false, true, false, false, true, true,
                true, false)), (String ((Ascii (false, true, false, false,
                false, true, true, false)), (String ((Ascii (true, false,
                false, true, false, true, true, false)), (String ((Ascii
                (false, false, true, false, true, true, true, false)),
                EmptyString))))))))
           then let (s', r) = read_bit s in (s', (out_of (fun x -> SB x) r))
           else if is (String ((Ascii (false, true, false, false, true, true,
                     true, false)), (String ((Ascii (false, true, false,
                     false, false, true, true, false)), (String ((Ascii
                     (true, false, false, true, true, true, true, false)),
                     (String ((Ascii (false, false, true, false, true, true,
                     true, false)), (String ((Ascii (true, false, true,
                     false, false, true, true, false)), EmptyString))))))))))
                then let (s', r) = read_byte s in
                     (s', (out_of (fun x -> SN x) r))
                else if is (String ((Ascii (false, true, false, false, true,
                          true, true, false)), (String ((Ascii (true, false,
                          true, false, true, true, true, false)), (String
                          ((Ascii (false, true, true, true, false, true,
                          true, false)), (String ((Ascii (true, false, false,
                          false, false, true, true, false)), (String ((Ascii
                          (false, true, false, false, true, true, true,
                          false)), (String ((Ascii (true, false, false, true,
                          true, true, true, false)), EmptyString))))))))))))
                     then let (s', r) = read_unary s in
                          (s', (out_of sx_nat r))
                     else if is (String ((Ascii (false, true, false, false,
                               true, true, true, false)), (String ((Ascii
                               (true, false, true, false, false, true, true,
                               false)), (String ((Ascii (true, true, false,
                               false, true, true, true, false)), (String
                               ((Ascii (true, false, true, false, false,
                               true, true, false)), (String ((Ascii (false,
                               false, true, false, true, true, true, false)),
                               EmptyString))))))))))
                          then ((reset_counter s), (SA (String ((Ascii (true,
                                 true, true, true, false, true, true,
                                 false)), (String ((Ascii (true, true, false,
                                 true, false, true, true, false)),
                                 EmptyString))))))
                          else if is (String ((Ascii (true, true, false,
                                    false, true, true, true, false)), (String
                                    ((Ascii (false, false, true, false, true,
                                    true, true, false)), (String ((Ascii
                                    (true, false, false, false, false, true,
                                    true, false)), (String ((Ascii (false,
                                    false, true, false, true, true, true,
                                    false)), (String ((Ascii (true, false,
                                    true, false, false, true, true, false)),
                                    EmptyString))))))))))
                               then (s, (SL
                                      ((sx_nat s.len) :: ((sx_nat
                                                            (avail_read s)) :: (
                                      (sx_nat (avail_write s)) :: ((SBits
                                      (abs0 s)) :: []))))))
                               else if is (String ((Ascii (false, true, true,
                                         false, false, true, true, false)),
                                         (String ((Ascii (true, false, false,
                                         true, false, true, true, false)),
                                         (String ((Ascii (false, true, true,
                                         false, false, true, true, false)),
                                         (String ((Ascii (false, false, true,
                                         false, true, true, true, false)),
                                         EmptyString))))))))
                                    then (s, (to_fift_sx (abs0 s)))
                                    else (s,
                                           (sx_err (String ((Ascii (false,
                                             true, false, false, false, true,
                                             true, false)), (String ((Ascii
                                             (true, false, false, false,
                                             false, true, true, false)),
                                             (String ((Ascii (false, false,
                                             true, false, false, true, true,
                                             false)), (String ((Ascii (false,
                                             false, false, false, false,
                                             true, false, false)), (String
                                             ((Ascii (true, true, true, true,
                                             false, true, true, false)),
                                             (String ((Ascii (false, false,
                                             false, false, true, true, true,
                                             false)), (String ((Ascii (false,
                                             false, false, false, true, true,
                                             false, false)),
                                             EmptyString))))))))))))))))
         | s1 :: l0 ->
           (match s1 with
            | SN v ->
              (match l0 with
               | [] ->
                 if is (String ((Ascii (true, true, true, false, true, true,
                      true, false)), (String ((Ascii (true, false, true,
                      false, true, true, true, false)), (String ((Ascii
                      (false, true, true, true, false, true, true, false)),
                      (String ((Ascii (true, false, false, false, false,
                      true, true, false)), (String ((Ascii (false, true,
                      false, false, true, true, true, false)), (String
                      ((Ascii (true, false, false, true, true, true, true,
                      false)), EmptyString))))))))))))
                 then let (s', r) = write_unary (N.to_nat v) s in
                      (s', (out_unit r))
                 else if is (String ((Ascii (false, true, false, false, true,
                           true, true, false)), (String ((Ascii (true, false,
                           true, false, true, true, true, false)), (String
                           ((Ascii (true, false, false, true, false, true,
                           true, false)), (String ((Ascii (false, true, true,
                           true, false, true, true, false)), (String ((Ascii
                           (false, false, true, false, true, true, true,
                           false)), EmptyString))))))))))
                      then let (s', r) = read_uint (N.to_nat v) s in
                           (s', (out_of (fun x -> SN x) r))
                      else if is (String ((Ascii (false, false, false, false,
                                true, true, true, false)), (String ((Ascii
                                (true, false, true, false, true, true, true,
                                false)), (String ((Ascii (true, false, false,
                                true, false, true, true, false)), (String
                                ((Ascii (false, true, true, true, false,
                                true, true, false)), (String ((Ascii (false,
                                false, true, false, true, true, true,
                                false)), EmptyString))))))))))
                           then let (s', r) = pick_uint (N.to_nat v) s in
                                (s', (out_of (fun x -> SN x) r))
                           else if is (String ((Ascii (false, true, false,
                                     false, true, true, true, false)),
                                     (String ((Ascii (true, false, false,
                                     true, false, true, true, false)),
                                     (String ((Ascii (false, true, true,
                                     true, false, true, true, false)),
                                     (String ((Ascii (false, false, true,
                                     false, true, true, true, false)),
                                     EmptyString))))))))
                                then let (s', r) = read_int (N.to_nat v) s in
                                     (s', (out_of (fun x -> SZ x) r))
                                else if is (String ((Ascii (false, true,
                                          false, false, true, true, true,
                                          false)), (String ((Ascii (false,
                                          true, false, false, false, true,
                                          true, false)), (String ((Ascii
                                          (true, false, false, true, false,
                                          true, true, false)), (String
                                          ((Ascii (true, true, true, false,
                                          false, true, true, false)), (String
                                          ((Ascii (true, false, true, false,
                                          true, true, true, false)), (String
                                          ((Ascii (true, false, false, true,
                                          false, true, true, false)), (String
                                          ((Ascii (false, true, true, true,
                                          false, true, true, false)), (String
                                          ((Ascii (false, false, true, false,
                                          true, true, true, false)),
                                          EmptyString))))))))))))))))
                                     then let (s', r) =
                                            read_big_uint (N.to_nat v) s
                                          in
                                          (s', (out_of (fun x -> SN x) r))
                                     else if is (String ((Ascii (false, true,
                                               false, false, true, true,
                                               true, false)), (String ((Ascii
                                               (false, true, false, false,
                                               false, true, true, false)),
                                               (String ((Ascii (true, false,
                                               false, true, false, true,
                                               true, false)), (String ((Ascii
                                               (true, true, true, false,
                                               false, true, true, false)),
                                               (String ((Ascii (true, false,
                                               false, true, false, true,
                                               true, false)), (String ((Ascii
                                               (false, true, true, true,
                                               false, true, true, false)),
                                               (String ((Ascii (false, false,
                                               true, false, true, true, true,
                                               false)),
                                               EmptyString))))))))))))))
                                          then let (s', r) =
                                                 read_big_int (N.to_nat v) s
                                               in
                                               (s',
                                               (out_of (fun x -> SZ x) r))
                                          else if is (String ((Ascii (false,
                                                    true, false, false, true,
                                                    true, true, false)),
                                                    (String ((Ascii (false,
                                                    true, false, false,
                                                    false, true, true,
                                                    false)), (String ((Ascii
                                                    (true, false, false,
                                                    true, true, true, true,
                                                    false)), (String ((Ascii
                                                    (false, false, true,
                                                    false, true, true, true,
                                                    false)), (String ((Ascii
                                                    (true, false, true,
                                                    false, false, true, true,
                                                    false)), (String ((Ascii
                                                    (true, true, false,
                                                    false, true, true, true,
                                                    false)),
                                                    EmptyString))))))))))))
                                               then let (s', r) =
                                                      read_bytes (N.to_nat v)
                                                        s
                                                    in
                                                    (s',
                                                    (out_of (fun x -> SBytes
                                                      x) r))
                                               else if is (String ((Ascii
                                                         (false, true, false,
                                                         false, true, true,
                                                         true, false)),
                                                         (String ((Ascii
                                                         (false, true, false,
                                                         false, false, true,
                                                         true, false)),
                                                         (String ((Ascii
                                                         (true, false, false,
                                                         true, false, true,
                                                         true, false)),
                                                         (String ((Ascii
                                                         (false, false, true,
                                                         false, true, true,
                                                         true, false)),
                                                         (String ((Ascii
                                                         (true, true, false,
                                                         false, true, true,
                                                         true, false)),
                                                         EmptyString))))))))))
                                                    then let (s', r) =
                                                           read_bits
                                                             (N.to_nat v) s
                                                         in
                                                         (s',
                                                         (out_of (fun x ->
                                                           SBits x) r))
                                                    else if is (String
                                                              ((Ascii (false,
                                                              true, false,
                                                              false, true,
                                                              true, true,
                                                              false)),
                                                              (String ((Ascii
                                                              (false, false,
                                                              true, true,
                                                              false, true,
                                                              true, false)),
                                                              (String ((Ascii
                                                              (true, false,
                                                              false, true,
                                                              false, true,
                                                              true, false)),
                                                              (String ((Ascii
                                                              (true, false,
                                                              true, true,
                                                              false, true,
                                                              true, false)),
                                                              EmptyString))))))))
                                                         then let (s', r) =
                                                                read_uint
                                                                  (N.to_nat
                                                                    (N.size v))
                                                                  s
                                                              in
                                                              (s',
                                                              (out_of
                                                                (fun x -> SN
                                                                x) r))
                                                         else if is (String
                                                                   ((Ascii
                                                                   (true,
                                                                   true,
                                                                   false,
                                                                   false,
                                                                   true,
                                                                   true,
                                                                   true,
                                                                   false)),
                                                                   (String
                                                                   ((Ascii
                                                                   (true,
                                                                   true,
                                                                   false,
                                                                   true,
                                                                   false,
                                                                   true,
                                                                   true,
                                                                   false)),
                                                                   (String
                                                                   ((Ascii
                                                                   (true,
                                                                   false,
                                                                   false,
                                                                   true,
                                                                   false,
                                                                   true,
                                                                   true,
                                                                   false)),
                                                                   (String
                                                                   ((Ascii
                                                                   (false,
                                                                   false,
                                                                   false,
                                                                   false,
                                                                   true,
                                                                   true,
                                                                   true,
                                                                   false)),
                                                                   EmptyString))))))))
                                                              then let (
                                                                    s', r) =
                                                                    skip
                                                                    (N.to_nat
                                                                    v) s
                                                                   in
                                                                   (s',
                                                                   (out_unit
                                                                    r))
                                                              else (s,
                                                                    (sx_err
                                                                    (String
                                                                    ((Ascii
                                                                    (false,
                                                                    true,
                                                                    false,
                                                                    false,
                                                                    false,
                                                                    true,
                                                                    true,
                                                                    false)),
                                                                    (String
                                                                    ((Ascii
                                                                    (true,
                                                                    false,
                                                                    false,
                                                                    false,
                                                                    false,
                                                                    true,
                                                                    true,
                                                                    false)),
                                                                    (String
                                                                    ((Ascii
                                                                    (false,
                                                                    false,
                                                                    true,
                                                                    false,
                                                                    false,
                                                                    true,
                                                                    true,
                                                                    false)),
                                                                    (String
                                                                    ((Ascii
                                                                    (false,
                                                                    false,
                                                                    false,
                                                                    false,
                                                                    false,
                                                                    true,
                                                                    false,
                                                                    false)),
                                                                    (String
                                                                    ((Ascii
                                                                    (true,
                                                                    true,
                                                                    true,
                                                                    true,
                                                                    false,
                                                                    true,
                                                                    true,
                                                                    false)),
                                                                    (String
                                                                    ((Ascii
                                                                    (false,
                                                                    false,
                                                                    false,
                                                                    false,
                                                                    true,
                                                                    true,
                                                                    true,
                                                                    false)),
                                                                    (String
                                                                    ((Ascii
                                                                    (false,
                                                                    false,
                                                                    false,
                                                                    false,
                                                                    false,
                                                                    true,
                                                                    false,
                                                                    false)),
                                                                    (String
                                                                    ((Ascii
                                                                    (false,
                                                                    true,
                                                                    true,
                                                                    true,
                                                                    false,
                                                                    true,
                                                                    true,
                                                                    false)),
                                                                    EmptyString))))))))))))))))))
               | s2 :: l1 ->
                 (match s2 with
                  | SN w ->
                    (match l1 with
                     | [] ->
                       if is (String ((Ascii (true, true, true, false, true,
                            true, true, false)), (String ((Ascii (true,
                            false, true, false, true, true, true, false)),
                            (String ((Ascii (true, false, false, true, false,
                            true, true, false)), (String ((Ascii (false,
                            true, true, true, false, true, true, false)),
                            (String ((Ascii (false, false, true, false, true,
                            true, true, false)), EmptyString))))))))))
                       then let (s', r) = write_uint v (N.to_nat w) s in
                            (s', (out_unit r))
                       else if is (String ((Ascii (true, true, true, false,
                                 true, true, true, false)), (String ((Ascii
                                 (false, true, false, false, false, true,
                                 true, false)), (String ((Ascii (true, false,
                                 false, true, false, true, true, false)),
                                 (String ((Ascii (true, true, true, false,
                                 false, true, true, false)), (String ((Ascii
                                 (true, false, true, false, true, true, true,
                                 false)), (String ((Ascii (true, false,
                                 false, true, false, true, true, false)),
                                 (String ((Ascii (false, true, true, true,
                                 false, true, true, false)), (String ((Ascii
                                 (false, false, true, false, true, true,
                                 true, false)), EmptyString))))))))))))))))
                            then let (s', r) = write_big_uint v (N.to_nat w) s
                                 in
                                 (s', (out_unit r))
                            else if is (String ((Ascii (true, true, true,
                                      false, true, true, true, false)),
                                      (String ((Ascii (false, false, true,
                                      true, false, true, true, false)),
                                      (String ((Ascii (true, false, false,
                                      true, false, true, true, false)),
                                      (String ((Ascii (true, false, true,
                                      true, false, true, true, false)),
                                      EmptyString))))))))
                                 then let (s', r) =
                                        write_uint v (N.to_nat (N.size w)) s
                                      in
                                      (s', (out_unit r))
                                 else (s,
                                        (sx_err (String ((Ascii (false, true,
                                          false, false, false, true, true,
                                          false)), (String ((Ascii (true,
                                          false, false, false, false, true,
                                          true, false)), (String ((Ascii
                                          (false, false, true, false, false,
                                          true, true, false)), (String
                                          ((Ascii (false, false, false,
                                          false, false, true, false, false)),
                                          (String ((Ascii (true, true, true,
                                          true, false, true, true, false)),
                                          (String ((Ascii (false, false,
                                          false, false, true, true, true,
                                          false)), (String ((Ascii (false,
                                          false, false, false, false, true,
                                          false, false)), (String ((Ascii
                                          (false, true, true, true, false,
                                          true, true, false)), (String
                                          ((Ascii (false, true, true, true,
                                          false, true, true, false)),
                                          EmptyString))))))))))))))))))))
                     | _ :: _ ->
                       (s,
                         (sx_err (String ((Ascii (false, true, false, false,
                           false, true, true, false)), (String ((Ascii (true,
                           false, false, false, false, true, true, false)),
                           (String ((Ascii (false, false, true, false, false,
                           true, true, false)), (String ((Ascii (false,
                           false, false, false, false, true, false, false)),
                           (String ((Ascii (true, true, true, true, false,
                           true, true, false)), (String ((Ascii (false,
                           false, false, false, true, true, true, false)),
                           (String ((Ascii (false, false, false, false,
                           false, true, false, false)), (String ((Ascii
                           (true, false, false, false, false, true, true,
                           false)), (String ((Ascii (false, true, false,
                           false, true, true, true, false)), (String ((Ascii
                           (true, true, true, false, false, true, true,
                           false)), (String ((Ascii (true, true, false,
                           false, true, true, true, false)),
                           EmptyString)))))))))))))))))))))))))
                  | _ ->
                    (s,
                      (sx_err (String ((Ascii (false, true, false, false,
                        false, true, true, false)), (String ((Ascii (true,
                        false, false, false, false, true, true, false)),
                        (String ((Ascii (false, false, true, false, false,
                        true, true, false)), (String ((Ascii (false, false,
                        false, false, false, true, false, false)), (String
                        ((Ascii (true, true, true, true, false, true, true,
                        false)), (String ((Ascii (false, false, false, false,
                        true, true, true, false)), (String ((Ascii (false,
                        false, false, false, false, true, false, false)),
                        (String ((Ascii (true, false, false, false, false,
                        true, true, false)), (String ((Ascii (false, true,
                        false, false, true, true, true, false)), (String
                        ((Ascii (true, true, true, false, false, true, true,
                        false)), (String ((Ascii (true, true, false, false,
                        true, true, true, false)),
                        EmptyString))))))))))))))))))))))))))
            | SZ v ->
              (match l0 with
               | [] ->
                 (s,
                   (sx_err (String ((Ascii (false, true, false, false, false,
                     true, true, false)), (String ((Ascii (true, false,
                     false, false, false, true, true, false)), (String
                     ((Ascii (false, false, true, false, false, true, true,
                     false)), (String ((Ascii (false, false, false, false,
                     false, true, false, false)), (String ((Ascii (true,
                     true, true, true, false, true, true, false)), (String
                     ((Ascii (false, false, false, false, true, true, true,
                     false)), (String ((Ascii (false, false, false, false,
                     false, true, false, false)), (String ((Ascii (true,
                     false, false, false, false, true, true, false)), (String
                     ((Ascii (false, true, false, false, true, true, true,
                     false)), (String ((Ascii (true, true, true, false,
                     false, true, true, false)), (String ((Ascii (true, true,
                     false, false, true, true, true, false)),
                     EmptyString))))))))))))))))))))))))
               | s2 :: l1 ->
                 (match s2 with
                  | SN w ->
                    (match l1 with
                     | [] ->
                       if is (String ((Ascii (true, true, true, false, true,
                            true, true, false)), (String ((Ascii (true,
                            false, false, true, false, true, true, false)),
                            (String ((Ascii (false, true, true, true, false,
                            true, true, false)), (String ((Ascii (false,
                            false, true, false, true, true, true, false)),
                            EmptyString))))))))
                       then let (s', r) = write_int v (N.to_nat w) s in
                            (s', (out_unit r))
                       else if is (String ((Ascii (true, true, true, false,
                                 true, true, true, false)), (String ((Ascii
                                 (false, true, false, false, false, true,
                                 true, false)), (String ((Ascii (true, false,
                                 false, true, false, true, true, false)),
                                 (String ((Ascii (true, true, true, false,
                                 false, true, true, false)), (String ((Ascii
                                 (true, false, false, true, false, true,
                                 true, false)), (String ((Ascii (false, true,
                                 true, true, false, true, true, false)),
                                 (String ((Ascii (false, false, true, false,
                                 true, true, true, false)),
                                 EmptyString))))))))))))))
                            then let (s', r) = write_big_int v (N.to_nat w) s
                                 in
                                 (s', (out_unit r))
                            else (s,
                                   (sx_err (String ((Ascii (false, true,
                                     false, false, false, true, true,
                                     false)), (String ((Ascii (true, false,
                                     false, false, false, true, true,
                                     false)), (String ((Ascii (false, false,
                                     true, false, false, true, true, false)),
                                     (String ((Ascii (false, false, false,
                                     false, false, true, false, false)),
                                     (String ((Ascii (true, true, true, true,
                                     false, true, true, false)), (String
                                     ((Ascii (false, false, false, false,
                                     true, true, true, false)), (String
                                     ((Ascii (false, false, false, false,
                                     false, true, false, false)), (String
                                     ((Ascii (false, true, false, true, true,
                                     true, true, false)), (String ((Ascii
                                     (false, true, true, true, false, true,
                                     true, false)),
                                     EmptyString))))))))))))))))))))
                     | _ :: _ ->
                       (s,
                         (sx_err (String ((Ascii (false, true, false, false,
                           false, true, true, false)), (String ((Ascii (true,
                           false, false, false, false, true, true, false)),
                           (String ((Ascii (false, false, true, false, false,
                           true, true, false)), (String ((Ascii (false,
                           false, false, false, false, true, false, false)),
                           (String ((Ascii (true, true, true, true, false,
                           true, true, false)), (String ((Ascii (false,
                           false, false, false, true, true, true, false)),
                           (String ((Ascii (false, false, false, false,
                           false, true, false, false)), (String ((Ascii
                           (true, false, false, false, false, true, true,
                           false)), (String ((Ascii (false, true, false,
                           false, true, true, true, false)), (String ((Ascii
                           (true, true, true, false, false, true, true,
                           false)), (String ((Ascii (true, true, false,
                           false, true, true, true, false)),
                           EmptyString)))))))))))))))))))))))))
                  | _ ->
                    (s,
                      (sx_err (String ((Ascii (false, true, false, false,
                        false, true, true, false)), (String ((Ascii (true,
                        false, false, false, false, true, true, false)),
                        (String ((Ascii (false, false, true, false, false,
                        true, true, false)), (String ((Ascii (false, false,
                        false, false, false, true, false, false)), (String
                        ((Ascii (true, true, true, true, false, true, true,
                        false)), (String ((Ascii (false, false, false, false,
                        true, true, true, false)), (String ((Ascii (false,
                        false, false, false, false, true, false, false)),
                        (String ((Ascii (true, false, false, false, false,
                        true, true, false)), (String ((Ascii (false, true,
                        false, false, true, true, true, false)), (String
                        ((Ascii (true, true, true, false, false, true, true,
                        false)), (String ((Ascii (true, true, false, false,
                        true, true, true, false)),
                        EmptyString))))))))))))))))))))))))))
            | SB b ->
              (match l0 with
               | [] ->
                 if is (String ((Ascii (true, true, true, false, true, true,
                      true, false)), (String ((Ascii (false, true, false,
                      false, false, true, true, false)), (String ((Ascii
                      (true, false, false, true, false, true, true, false)),
                      (String ((Ascii (false, false, true, false, true, true,
                      true, false)), EmptyString))))))))
                 then let (s', r) = write_bit b s in (s', (out_unit r))
                 else (s,
                        (sx_err (String ((Ascii (false, true, false, false,
                          false, true, true, false)), (String ((Ascii (true,
                          false, false, false, false, true, true, false)),
                          (String ((Ascii (false, false, true, false, false,
                          true, true, false)), (String ((Ascii (false, false,
                          false, false, false, true, false, false)), (String
                          ((Ascii (true, true, true, true, false, true, true,
                          false)), (String ((Ascii (false, false, false,
                          false, true, true, true, false)), (String ((Ascii
                          (false, false, false, false, false, true, false,
                          false)), (String ((Ascii (false, true, false,
                          false, false, true, true, false)),
                          EmptyString))))))))))))))))))
               | _ :: _ ->
                 (s,
                   (sx_err (String ((Ascii (false, true, false, false, false,
                     true, true, false)), (String ((Ascii (true, false,
                     false, false, false, true, true, false)), (String
                     ((Ascii (false, false, true, false, false, true, true,
                     false)), (String ((Ascii (false, false, false, false,
                     false, true, false, false)), (String ((Ascii (true,
                     true, true, true, false, true, true, false)), (String
                     ((Ascii (false, false, false, false, true, true, true,
                     false)), (String ((Ascii (false, false, false, false,
                     false, true, false, false)), (String ((Ascii (true,
                     false, false, false, false, true, true, false)), (String
                     ((Ascii (false, true, false, false, true, true, true,
                     false)), (String ((Ascii (true, true, true, false,
                     false, true, true, false)), (String ((Ascii (true, true,
                     false, false, true, true, true, false)),
                     EmptyString)))))))))))))))))))))))))
            | SBits l1 ->
              (match l0 with
               | [] ->
                 if is (String ((Ascii (true, true, true, false, true, true,
                      true, false)), (String ((Ascii (false, true, false,
                      false, false, true, true, false)), (String ((Ascii
                      (true, false, false, true, false, true, true, false)),
                      (String ((Ascii (false, false, true, false, true, true,
                      true, false)), (String ((Ascii (true, true, false,
                      false, true, true, true, false)), EmptyString))))))))))
                 then let (s', r) = write_bits l1 s in (s', (out_unit r))
                 else (s,
                        (sx_err (String ((Ascii (false, true, false, false,
                          false, true, true, false)), (String ((Ascii (true,
                          false, false, false, false, true, true, false)),
                          (String ((Ascii (false, false, true, false, false,
                          true, true, false)), (String ((Ascii (false, false,
                          false, false, false, true, false, false)), (String
                          ((Ascii (true, true, true, true, false, true, true,
                          false)), (String ((Ascii (false, false, false,
                          false, true, true, true, false)), (String ((Ascii
                          (false, false, false, false, false, true, false,
                          false)), (String ((Ascii (false, true, false,
                          false, false, true, true, false)), (String ((Ascii
                          (true, false, false, true, false, true, true,
                          false)), (String ((Ascii (false, false, true,
                          false, true, true, true, false)), (String ((Ascii
                          (true, true, false, false, true, true, true,
                          false)), EmptyString))))))))))))))))))))))))
               | _ :: _ ->
                 (s,
                   (sx_err (String ((Ascii (false, true, false, false, false,
                     true, true, false)), (String ((Ascii (true, false,
                     false, false, false, true, true, false)), (String
                     ((Ascii (false, false, true, false, false, true, true,
                     false)), (String ((Ascii (false, false, false, false,
                     false, true, false, false)), (String ((Ascii (true,
                     true, true, true, false, true, true, false)), (String
                     ((Ascii (false, false, false, false, true, true, true,
                     false)), (String ((Ascii (false, false, false, false,
                     false, true, false, false)), (String ((Ascii (true,
                     false, false, false, false, true, true, false)), (String
                     ((Ascii (false, true, false, false, true, true, true,
                     false)), (String ((Ascii (true, true, true, false,
                     false, true, true, false)), (String ((Ascii (true, true,
                     false, false, true, true, true, false)),
                     EmptyString)))))))))))))))))))))))))
            | SBytes l1 ->
              (match l0 with
               | [] ->
                 if is (String ((Ascii (true, true, true, false, true, true,
                      true, false)), (String ((Ascii (false, true, false,
                      false, false, true, true, false)), (String ((Ascii
                      (true, false, false, true, true, true, true, false)),
                      (String ((Ascii (false, false, true, false, true, true,
                      true, false)), (String ((Ascii (true, false, true,
                      false, false, true, true, false)), (String ((Ascii
                      (true, true, false, false, true, true, true, false)),
                      EmptyString))))))))))))
                 then let (s', r) = write_bytes l1 s in (s', (out_unit r))
                 else (s,
                        (sx_err (String ((Ascii (false, true, false, false,
                          false, true, true, false)), (String ((Ascii (true,
                          false, false, false, false, true, true, false)),
                          (String ((Ascii (false, false, true, false, false,
                          true, true, false)), (String ((Ascii (false, false,
                          false, false, false, true, false, false)), (String
                          ((Ascii (true, true, true, true, false, true, true,
                          false)), (String ((Ascii (false, false, false,
                          false, true, true, true, false)), (String ((Ascii
                          (false, false, false, false, false, true, false,
                          false)), (String ((Ascii (false, false, false,
                          true, true, true, true, false)),
                          EmptyString))))))))))))))))))
               | _ :: _ ->
                 (s,
                   (sx_err (String ((Ascii (false, true, false, false, false,
                     true, true, false)), (String ((Ascii (true, false,
                     false, false, false, true, true, false)), (String
                     ((Ascii (false, false, true, false, false, true, true,
                     false)), (String ((Ascii (false, false, false, false,
                     false, true, false, false)), (String ((Ascii (true,
                     true, true, true, false, true, true, false)), (String
                     ((Ascii (false, false, false, false, true, true, true,
                     false)), (String ((Ascii (false, false, false, false,
                     false, true, false, false)), (String ((Ascii (true,
                     false, false, false, false, true, true, false)), (String
                     ((Ascii (false, true, false, false, true, true, true,
                     false)), (String ((Ascii (true, true, true, false,
                     false, true, true, false)), (String ((Ascii (true, true,
                     false, false, true, true, true, false)),
                     EmptyString)))))))))))))))))))))))))
            | _ ->
              (s,
                (sx_err (String ((Ascii (false, true, false, false, false,
                  true, true, false)), (String ((Ascii (true, false, false,
                  false, false, true, true, false)), (String ((Ascii (false,
                  false, true, false, false, true, true, false)), (String
                  ((Ascii (false, false, false, false, false, true, false,
                  false)), (String ((Ascii (true, true, true, true, false,
                  true, true, false)), (String ((Ascii (false, false, false,
                  false, true, true, true, false)), (String ((Ascii (false,
                  false, false, false, false, true, false, false)), (String
                  ((Ascii (true, false, false, false, false, true, true,
                  false)), (String ((Ascii (false, true, false, false, true,
                  true, true, false)), (String ((Ascii (true, true, true,
                  false, false, true, true, false)), (String ((Ascii (true,
                  true, false, false, true, true, true, false)),
                  EmptyString))))))))))))))))))))))))))
      | _ ->
        (s,
          (sx_err (String ((Ascii (false, true, false, false, false, true,
            true, false)), (String ((Ascii (true, false, false, false, false,
            true, true, false)), (String ((Ascii (false, false, true, false,
            false, true, true, false)), (String ((Ascii (false, false, false,
            false, false, true, false, false)), (String ((Ascii (true, true,
            true, true, false, true, true, false)), (String ((Ascii (false,
            false, false, false, true, true, true, false)),
            EmptyString))))))))))))))))
| _ ->
  (s,
    (sx_err (String ((Ascii (false, true, false, false, false, true, true,
      false)), (String ((Ascii (true, false, false, false, false, true, true,
      false)), (String ((Ascii (false, false, true, false, false, true, true,
      false)), (String ((Ascii (false, false, false, false, false, true,
      false, false)), (String ((Ascii (true, true, true, true, false, true,
      true, false)), (String ((Ascii (false, false, false, false, true, true,
      true, false)), EmptyString))))))))))))))

(** val run_ops : bs -> sx list -> sx list **)

let rec run_ops s = function
| [] -> []
| o :: t -> let (s', r) = step s o in r :: (run_ops s' t)

(** val run_seq : sx -> sx **)

let run_seq = function
| SL l ->
  (match l with
   | [] ->
     sx_err (String ((Ascii (true, true, false, false, true, true, true,
       false)), (String ((Ascii (true, false, true, false, false, true, true,
       false)), (String ((Ascii (true, false, false, false, true, true, true,
       false)), EmptyString))))))
   | s :: ops ->
     (match s with
      | SN c -> SL (run_ops (new_bs (N.to_nat c)) ops)
      | _ ->
        sx_err (String ((Ascii (true, true, false, false, true, true, true,
          false)), (String ((Ascii (true, false, true, false, false, true,
          true, false)), (String ((Ascii (true, false, false, false, true,
          true, true, false)), EmptyString))))))))
| _ ->
  sx_err (String ((Ascii (true, true, false, false, true, true, true,
    false)), (String ((Ascii (true, false, true, false, false, true, true,
    false)), (String ((Ascii (true, false, false, false, true, true, true,
    false)), EmptyString))))))

(** val hex_to_int : n -> n option **)

let hex_to_int c =
  if (&&) (N.leb (Npos (XO (XO (XO (XO (XI XH)))))) c)
       (N.leb c (Npos (XI (XO (XO (XI (XI XH)))))))
  then Some (N.sub c (Npos (XO (XO (XO (XO (XI XH)))))))
  else if (&&) (N.leb (Npos (XI (XO (XO (XO (XO (XI XH))))))) c)
            (N.leb c (Npos (XO (XI (XI (XO (XO (XI XH))))))))
       then Some
              (N.add (N.sub c (Npos (XI (XO (XO (XO (XO (XI XH)))))))) (Npos
                (XO (XI (XO XH)))))
       else if (&&) (N.leb (Npos (XI (XO (XO (XO (XO (XO XH))))))) c)
                 (N.leb c (Npos (XO (XI (XI (XO (XO (XO XH))))))))
            then Some
                   (N.add (N.sub c (Npos (XI (XO (XO (XO (XO (XO XH))))))))
                     (Npos (XO (XI (XO XH)))))
            else None

(** val hex_digits : n list -> n list option **)

let rec hex_digits = function
| [] -> Some []
| c :: t ->
  (match hex_to_int c with
   | Some d ->
     (match hex_digits t with
      | Some ds -> Some (d :: ds)
      | None -> None)
   | None -> None)

(** val ref_suffix : n -> bits option **)

let ref_suffix c =
  match hex_to_int c with
  | Some d -> strip_tag d
  | None -> None

(** val from_fift_chars : n list -> bits option **)

let from_fift_chars cs =
  match rev cs with
  | [] ->
    (match hex_digits cs with
     | Some ds -> Some (concat_nibbles ds)
     | None -> None)
  | n0 :: rest ->
    (match n0 with
     | N0 ->
       (match hex_digits cs with
        | Some ds -> Some (concat_nibbles ds)
        | None -> None)
     | Npos p ->
       (match p with
        | XI p0 ->
          (match p0 with
           | XI p1 ->
             (match p1 with
              | XI p2 ->
                (match p2 with
                 | XI p3 ->
                   (match p3 with
                    | XI p4 ->
                      (match p4 with
                       | XO p5 ->
                         (match p5 with
                          | XH ->
                            (match rest with
                             | [] -> None
                             | c :: body ->
                               (match ref_suffix c with
                                | Some tail ->
                                  (match hex_digits (rev body) with
                                   | Some ds ->
                                     Some (app (concat_nibbles ds) tail)
                                   | None -> None)
                                | None -> None))
                          | _ ->
                            (match hex_digits cs with
                             | Some ds -> Some (concat_nibbles ds)
                             | None -> None))
                       | _ ->
                         (match hex_digits cs with
                          | Some ds -> Some (concat_nibbles ds)
                          | None -> None))
                    | _ ->
                      (match hex_digits cs with
                       | Some ds -> Some (concat_nibbles ds)
                       | None -> None))
                 | _ ->
                   (match hex_digits cs with
                    | Some ds -> Some (concat_nibbles ds)
                    | None -> None))
              | _ ->
                (match hex_digits cs with
                 | Some ds -> Some (concat_nibbles ds)
                 | None -> None))
           | _ ->
             (match hex_digits cs with
              | Some ds -> Some (concat_nibbles ds)
              | None -> None))
        | _ ->
          (match hex_digits cs with
           | Some ds -> Some (concat_nibbles ds)
           | None -> None)))

(** val hex_char : n -> n **)

let hex_char d =
  if N.ltb d (Npos (XO (XI (XO XH))))
  then N.add (Npos (XO (XO (XO (XO (XI XH)))))) d
  else N.sub (N.add (Npos (XI (XO (XO (XO (XO (XO XH))))))) d) (Npos (XO (XI
         (XO XH))))

(** val to_fift_chars : bits -> n list **)

let to_fift_chars l =
  let (ds, u) = to_fift l in
  app (map hex_char ds)
    (if u then (Npos (XI (XI (XI (XI (XI (XO XH))))))) :: [] else [])

(** val run_from_fift : sx -> sx **)

let run_from_fift = function
| SBytes cs ->
  (match from_fift_chars cs with
   | Some l -> SBits l
   | None ->
     SA (String ((Ascii (true, false, true, false, false, true, true,
       false)), (String ((Ascii (false, true, false, false, true, true, true,
       false)), (String ((Ascii (false, true, false, false, true, true, true,
       false)), EmptyString)))))))
| _ ->
  sx_err (String ((Ascii (false, true, true, false, false, true, true,
    false)), (String ((Ascii (false, true, false, false, true, true, true,
    false)), (String ((Ascii (true, true, true, true, false, true, true,
    false)), (String ((Ascii (true, false, true, true, false, true, true,
    false)), (String ((Ascii (false, true, true, false, false, true, true,
    false)), (String ((Ascii (true, false, false, true, false, true, true,
    false)), (String ((Ascii (false, true, true, false, false, true, true,
    false)), (String ((Ascii (false, false, true, false, true, true, true,
    false)), EmptyString))))))))))))))))

(** val run_to_fift : sx -> sx **)

let run_to_fift = function
| SBits l -> SBytes (to_fift_chars l)
| _ ->
  sx_err (String ((Ascii (false, false, true, false, true, true, true,
    false)), (String ((Ascii (true, true, true, true, false, true, true,
    false)), (String ((Ascii (false, true, true, false, false, true, true,
    false)), (String ((Ascii (true, false, false, true, false, true, true,
    false)), (String ((Ascii (false, true, true, false, false, true, true,
    false)), (String ((Ascii (false, false, true, false, true, true, true,
    false)), EmptyString))))))))))))

(** val run_minbits : sx -> sx **)

let run_minbits = function
| SN v -> SN (N.size v)
| _ ->
  sx_err (String ((Ascii (true, false, true, true, false, true, true,
    false)), (String ((Ascii (true, false, false, true, false, true, true,
    false)), (String ((Ascii (false, true, true, true, false, true, true,
    false)), (String ((Ascii (false, true, false, false, false, true, true,
    false)), (String ((Ascii (true, false, false, true, false, true, true,
    false)), (String ((Ascii (false, false, true, false, true, true, true,
    false)), (String ((Ascii (true, true, false, false, true, true, true,
    false)), EmptyString))))))))))))))

(** val m32 : n **)

let m32 =
  Npos (XI (XI (XI (XI (XI (XI (XI (XI (XI (XI (XI (XI (XI (XI (XI (XI (XI
    (XI (XI (XI (XI (XI (XI (XI (XI (XI (XI (XI (XI (XI (XI
    XH)))))))))))))))))))))))))))))))

(** val add32 : n -> n -> n **)

let add32 a b =
  N.coq_land (N.add a b) m32

(** val rotr : n -> n -> n **)

let rotr x n0 =
  N.coq_lor (N.shiftr x n0)
    (N.coq_land (N.shiftl x (N.sub (Npos (XO (XO (XO (XO (XO XH)))))) n0))
      m32)

(** val not32 : n -> n **)

let not32 x =
  N.coq_lxor x m32

(** val ch : n -> n -> n -> n **)

let ch x y z0 =
  N.coq_lxor (N.coq_land x y) (N.coq_land (not32 x) z0)

(** val maj : n -> n -> n -> n **)

let maj x y z0 =
  N.coq_lxor (N.coq_lxor (N.coq_land x y) (N.coq_land x z0)) (N.coq_land y z0)

(** val bsig0 : n -> n **)

let bsig0 x =
  N.coq_lxor
    (N.coq_lxor (rotr x (Npos (XO XH))) (rotr x (Npos (XI (XO (XI XH))))))
    (rotr x (Npos (XO (XI (XI (XO XH))))))

(** val bsig1 : n -> n **)

let bsig1 x =
  N.coq_lxor
    (N.coq_lxor (rotr x (Npos (XO (XI XH))))
      (rotr x (Npos (XI (XI (XO XH))))))
    (rotr x (Npos (XI (XO (XO (XI XH))))))

(** val ssig0 : n -> n **)

let ssig0 x =
  N.coq_lxor
    (N.coq_lxor (rotr x (Npos (XI (XI XH))))
      (rotr x (Npos (XO (XI (XO (XO XH))))))) (N.shiftr x (Npos (XI XH)))

(** val ssig1 : n -> n **)

let ssig1 x =
  N.coq_lxor
    (N.coq_lxor (rotr x (Npos (XI (XO (XO (XO XH))))))
      (rotr x (Npos (XI (XI (XO (XO XH)))))))
    (N.shiftr x (Npos (XO (XI (XO XH)))))

(** val k : n list **)

let k =
  (Npos (XO (XO (XO (XI (XI (XO (XO (XI (XI (XI (XI (XI (XO (XI (XO (XO (XO
    (XI (XO (XI (XO (XO (XO (XI (XO (XI (XO (XO (XO (XO
    XH))))))))))))))))))))))))))))))) :: ((Npos (XI (XO (XO (XO (XI (XO (XO
    (XI (XO (XO (XI (XO (XO (XO (XI (XO (XI (XI (XI (XO (XI (XI (XO (XO (XI
    (XO (XO (XO (XI (XI XH))))))))))))))))))))))))))))))) :: ((Npos (XI (XI
    (XI (XI (XO (XO (XI (XI (XI (XI (XO (XI (XI (XI (XI (XI (XO (XO (XO (XO
    (XO (XO (XI (XI (XI (XO (XI (XO (XI (XI (XO
    XH)))))))))))))))))))))))))))))))) :: ((Npos (XI (XO (XI (XO (XO (XI (XO
    (XI (XI (XI (XO (XI (XI (XO (XI (XI (XI (XO (XI (XO (XI (XI (XO (XI (XI
    (XO (XO (XI (XO (XI (XI XH)))))))))))))))))))))))))))))))) :: ((Npos (XI
    (XI (XO (XI (XI (XO (XI (XO (XO (XI (XO (XO (XO (XO (XI (XI (XO (XI (XI
    (XO (XI (XO (XI (XO (XI (XO (XO (XI (XI
    XH)))))))))))))))))))))))))))))) :: ((Npos (XI (XO (XO (XO (XI (XI (XI
    (XI (XI (XO (XO (XO (XI (XO (XO (XO (XI (XO (XO (XO (XI (XI (XI (XI (XI
    (XO (XO (XI (XI (XO XH))))))))))))))))))))))))))))))) :: ((Npos (XO (XO
    (XI (XO (XO (XI (XO (XI (XO (XI (XO (XO (XO (XO (XO (XI (XI (XI (XI (XI
    (XI (XI (XO (XO (XO (XI (XO (XO (XI (XO (XO
    XH)))))))))))))))))))))))))))))))) :: ((Npos (XI (XO (XI (XO (XI (XO (XI
    (XI (XO (XI (XI (XI (XI (XO (XI (XO (XO (XO (XI (XI (XI (XO (XO (XO (XI
    (XI (XO (XI (XO (XI (XO XH)))))))))))))))))))))))))))))))) :: ((Npos (XO
    (XO (XO (XI (XI (XO (XO (XI (XO (XI (XO (XI (XO (XI (XO (XI (XI (XI (XI
    (XO (XO (XO (XO (XO (XO (XO (XO (XI (XI (XO (XI
    XH)))))))))))))))))))))))))))))))) :: ((Npos (XI (XO (XO (XO (XO (XO (XO
    (XO (XI (XI (XO (XI (XI (XO (XI (XO (XI (XI (XO (XO (XO (XO (XO (XI (XO
    (XI (XO (XO XH))))))))))))))))))))))))))))) :: ((Npos (XO (XI (XI (XI (XI
    (XI (XO (XI (XI (XO (XI (XO (XO (XO (XO (XI (XI (XO (XO (XO (XI (XI (XO
    (XO (XO (XO (XI (XO (XO XH)))))))))))))))))))))))))))))) :: ((Npos (XI
    (XI (XO (XO (XO (XO (XI (XI (XI (XO (XI (XI (XI (XI (XI (XO (XO (XO (XI
    (XI (XO (XO (XO (XO (XI (XO (XI (XO (XI (XO
    XH))))))))))))))))))))))))))))))) :: ((Npos (XO (XO (XI (XO (XI (XI (XI
    (XO (XI (XO (XI (XI (XI (XO (XI (XO (XO (XI (XI (XI (XI (XI (XO (XI (XO
    (XI (XO (XO (XI (XI XH))))))))))))))))))))))))))))))) :: ((Npos (XO (XI
    (XI (XI (XI (XI (XI (XI (XI (XO (XO (XO (XI (XI (XO (XI (XO (XI (XI (XI
    (XI (XO (XI (XI (XO (XO (XO (XO (XO (XO (XO
    XH)))))))))))))))))))))))))))))))) :: ((Npos (XI (XI (XI (XO (XO (XI (XO
    (XI (XO (XI (XI (XO (XO (XO (XO (XO (XO (XO (XI (XI (XI (XO (XI (XI (XI
    (XI (XO (XI (XI (XO (XO XH)))))))))))))))))))))))))))))))) :: ((Npos (XO
    (XO (XI (XO (XI (XI (XI (XO (XI (XO (XO (XO (XI (XI (XI (XI (XI (XI (XO
    (XI (XI (XO (XO (XI (XI (XO (XO (XO (XO (XO (XI
    XH)))))))))))))))))))))))))))))))) :: ((Npos (XI (XO (XO (XO (XO (XO (XI
    (XI (XI (XO (XO (XI (XO (XI (XI (XO (XI (XI (XO (XI (XI (XO (XO (XI (XO
    (XO (XI (XO (XO (XI (XI XH)))))))))))))))))))))))))))))))) :: ((Npos (XO
    (XI (XI (XO (XO (XO (XO (XI (XI (XI (XI (XO (XO (XO (XI (XO (XO (XI (XI
    (XI (XI (XI (XO (XI (XI (XI (XI (XI (XO (XI (XI
    XH)))))))))))))))))))))))))))))))) :: ((Npos (XO (XI (XI (XO (XO (XO (XI
    (XI (XI (XO (XI (XI (XI (XO (XO (XI (XI (XO (XO (XO (XO (XO (XI (XI (XI
    (XI (XI XH)))))))))))))))))))))))))))) :: ((Npos (XO (XO (XI (XI (XO (XO
    (XI (XI (XI (XO (XO (XO (XO (XI (XO (XI (XO (XO (XI (XI (XO (XO (XO (XO
    (XO (XO (XI (XO (XO XH)))))))))))))))))))))))))))))) :: ((Npos (XI (XI
    (XI (XI (XO (XI (XI (XO (XO (XO (XI (XI (XO (XI (XO (XO (XI (XO (XO (XI
    (XO (XI (XI (XI (XI (XO (XI (XI (XO
    XH)))))))))))))))))))))))))))))) :: ((Npos (XO (XI (XO (XI (XO (XI (XO
    (XI (XO (XO (XI (XO (XO (XO (XO (XI (XO (XO (XI (XO (XI (XI (XI (XO (XO
    (XI (XO (XI (XO (XO XH))))))))))))))))))))))))))))))) :: ((Npos (XO (XO
    (XI (XI (XI (XO (XI (XI (XI (XO (XO (XI (XO (XI (XO (XI (XO (XO (XO (XO
    (XI (XI (XO (XI (XO (XO (XI (XI (XI (XO
    XH))))))))))))))))))))))))))))))) :: ((Npos (XO (XI (XO (XI (XI (XO (XI
    (XI (XO (XO (XO (XI (XO (XO (XO (XI (XI (XO (XO (XI (XI (XI (XI (XI (XO
    (XI (XI (XO (XI (XI XH))))))))))))))))))))))))))))))) :: ((Npos (XO (XI
    (XO (XO (XI (XO (XI (XO (XI (XO (XO (XO (XI (XO (XI (XO (XO (XI (XI (XI
    (XI (XI (XO (XO (XO (XO (XO (XI (XI (XO (XO
    XH)))))))))))))))))))))))))))))))) :: ((Npos (XI (XO (XI (XI (XO (XI (XI
    (XO (XO (XI (XI (XO (XO (XO (XI (XI (XI (XO (XO (XO (XI (XI (XO (XO (XO
    (XO (XO (XI (XO (XI (XO XH)))))))))))))))))))))))))))))))) :: ((Npos (XO
    (XO (XO (XI (XO (XO (XI (XI (XI (XI (XI (XO (XO (XI (XO (XO (XI (XI (XO
    (XO (XO (XO (XO (XO (XO (XO (XO (XO (XI (XI (XO
    XH)))))))))))))))))))))))))))))))) :: ((Npos (XI (XI (XI (XO (XO (XO (XI
    (XI (XI (XI (XI (XI (XI (XI (XI (XO (XI (XO (XO (XI (XI (XO (XI (XO (XI
    (XI (XI (XI (XI (XI (XO XH)))))))))))))))))))))))))))))))) :: ((Npos (XI
    (XI (XO (XO (XI (XI (XI (XI (XI (XI (XO (XI (XO (XO (XO (XO (XO (XO (XO
    (XO (XO (XI (XI (XI (XO (XI (XI (XO (XO (XO (XI
    XH)))))))))))))))))))))))))))))))) :: ((Npos (XI (XI (XI (XO (XO (XO (XI
    (XO (XI (XO (XO (XO (XI (XO (XO (XI (XI (XI (XI (XO (XO (XI (XO (XI (XI
    (XO (XI (XO (XI (XO (XI XH)))))))))))))))))))))))))))))))) :: ((Npos (XI
    (XO (XO (XO (XI (XO (XI (XO (XI (XI (XO (XO (XO (XI (XI (XO (XO (XI (XO
    (XI (XO (XO (XI (XI (XO (XI XH))))))))))))))))))))))))))) :: ((Npos (XI
    (XI (XI (XO (XO (XI (XI (XO (XI (XO (XO (XI (XO (XI (XO (XO (XI (XO (XO
    (XI (XO (XI (XO (XO (XO (XO (XI (XO
    XH))))))))))))))))))))))))))))) :: ((Npos (XI (XO (XI (XO (XO (XO (XO (XI
    (XO (XI (XO (XI (XO (XO (XO (XO (XI (XI (XI (XO (XI (XI (XO (XI (XI (XI
    (XI (XO (XO XH)))))))))))))))))))))))))))))) :: ((Npos (XO (XO (XO (XI
    (XI (XI (XO (XO (XI (XO (XO (XO (XO (XI (XO (XO (XI (XI (XO (XI (XI (XO
    (XO (XO (XO (XI (XI (XI (XO XH)))))))))))))))))))))))))))))) :: ((Npos
    (XO (XO (XI (XI (XI (XI (XI (XI (XI (XO (XI (XI (XO (XI (XI (XO (XO (XO
    (XI (XI (XO (XI (XO (XO (XI (XO (XI (XI (XO (XO
    XH))))))))))))))))))))))))))))))) :: ((Npos (XI (XI (XO (XO (XI (XO (XO
    (XO (XI (XO (XI (XI (XO (XO (XO (XO (XO (XO (XO (XI (XI (XI (XO (XO (XI
    (XI (XO (XO (XI (XO XH))))))))))))))))))))))))))))))) :: ((Npos (XO (XO
    (XI (XO (XI (XO (XI (XO (XI (XI (XO (XO (XI (XI (XI (XO (XO (XI (XO (XI
    (XO (XO (XO (XO (XI (XO (XI (XO (XO (XI
    XH))))))))))))))))))))))))))))))) :: ((Npos (XI (XI (XO (XI (XI (XI (XO
    (XI (XO (XI (XO (XI (XO (XO (XO (XO (XO (XI (XO (XI (XO (XI (XI (XO (XO
    (XI (XI (XO (XI (XI XH))))))))))))))))))))))))))))))) :: ((Npos (XO (XI
    (XI (XI (XO (XI (XO (XO (XI (XO (XO (XI (XO (XO (XI (XI (XO (XI (XO (XO
    (XO (XO (XI (XI (XI (XO (XO (XO (XO (XO (XO
    XH)))))))))))))))))))))))))))))))) :: ((Npos (XI (XO (XI (XO (XO (XO (XO
    (XI (XO (XO (XI (XI (XO (XI (XO (XO (XO (XI (XO (XO (XI (XI (XI (XO (XO
    (XI (XO (XO (XI (XO (XO XH)))))))))))))))))))))))))))))))) :: ((Npos (XI
    (XO (XO (XO (XO (XI (XO (XI (XO (XO (XO (XI (XO (XI (XI (XI (XI (XI (XI
    (XI (XI (XI (XO (XI (XO (XI (XO (XO (XO (XI (XO
    XH)))))))))))))))))))))))))))))))) :: ((Npos (XI (XI (XO (XI (XO (XO (XI
    (XO (XO (XI (XI (XO (XO (XI (XI (XO (XO (XI (XO (XI (XI (XO (XO (XO (XO
    (XO (XO (XI (XO (XI (XO XH)))))))))))))))))))))))))))))))) :: ((Npos (XO
    (XO (XO (XO (XI (XI (XI (XO (XI (XI (XO (XI (XO (XO (XO (XI (XI (XI (XO
    (XI (XO (XO (XI (XO (XO (XI (XO (XO (XO (XO (XI
    XH)))))))))))))))))))))))))))))))) :: ((Npos (XI (XI (XO (XO (XO (XI (XO
    (XI (XI (XO (XO (XO (XI (XO (XI (XO (XO (XO (XI (XI (XO (XI (XI (XO (XI
    (XI (XI (XO (XO (XO (XI XH)))))))))))))))))))))))))))))))) :: ((Npos (XI
    (XO (XO (XI (XI (XO (XO (XO (XO (XO (XO (XI (XO (XI (XI (XI (XO (XI (XO
    (XO (XI (XO (XO (XI (XI (XO (XO (XO (XI (XO (XI
    XH)))))))))))))))))))))))))))))))) :: ((Npos (XO (XO (XI (XO (XO (XI (XO
    (XO (XO (XI (XI (XO (XO (XO (XO (XO (XI (XO (XO (XI (XI (XO (XO (XI (XO
    (XI (XI (XO (XI (XO (XI XH)))))))))))))))))))))))))))))))) :: ((Npos (XI
    (XO (XI (XO (XO (XO (XO (XI (XI (XO (XI (XO (XI (XI (XO (XO (XO (XI (XI
    (XI (XO (XO (XO (XO (XO (XO (XI (XO (XI (XI (XI
    XH)))))))))))))))))))))))))))))))) :: ((Npos (XO (XO (XO (XO (XI (XI (XI
    (XO (XO (XO (XO (XO (XO (XI (XO (XI (XO (XI (XO (XI (XO (XI (XI (XO (XO
    (XO (XO (XO XH))))))))))))))))))))))))))))) :: ((Npos (XO (XI (XI (XO (XI
    (XO (XO (XO (XI (XO (XO (XO (XO (XO (XI (XI (XO (XO (XI (XO (XO (XI (XO
    (XI (XI (XO (XO (XI XH))))))))))))))))))))))))))))) :: ((Npos (XO (XO (XO
    (XI (XO (XO (XO (XO (XO (XO (XI (XI (XO (XI (XI (XO (XI (XI (XI (XO (XI
    (XI (XO (XO (XO (XI (XI (XI XH))))))))))))))))))))))))))))) :: ((Npos (XO
    (XO (XI (XI (XO (XO (XI (XO (XI (XI (XI (XO (XI (XI (XI (XO (XO (XO (XO
    (XI (XO (XO (XI (XO (XI (XI (XI (XO (XO
    XH)))))))))))))))))))))))))))))) :: ((Npos (XI (XO (XI (XO (XI (XI (XO
    (XI (XO (XO (XI (XI (XI (XI (XO (XI (XO (XO (XO (XO (XI (XI (XO (XI (XO
    (XO (XI (XO (XI XH)))))))))))))))))))))))))))))) :: ((Npos (XI (XI (XO
    (XO (XI (XI (XO (XI (XO (XO (XI (XI (XO (XO (XO (XO (XO (XO (XI (XI (XI
    (XO (XO (XO (XI (XO (XO (XI (XI
    XH)))))))))))))))))))))))))))))) :: ((Npos (XO (XI (XO (XI (XO (XO (XI
    (XO (XO (XI (XO (XI (XO (XI (XO (XI (XO (XO (XO (XI (XI (XO (XI (XI (XO
    (XI (XI (XI (XO (XO XH))))))))))))))))))))))))))))))) :: ((Npos (XI (XI
    (XI (XI (XO (XO (XI (XO (XO (XI (XO (XI (XO (XO (XI (XI (XO (XO (XI (XI
    (XI (XO (XO (XI (XI (XI (XO (XI (XI (XO
    XH))))))))))))))))))))))))))))))) :: ((Npos (XI (XI (XO (XO (XI (XI (XI
    (XI (XI (XI (XI (XI (XO (XI (XI (XO (XO (XI (XI (XI (XO (XI (XO (XO (XO
    (XO (XO (XI (XO (XI XH))))))))))))))))))))))))))))))) :: ((Npos (XO (XI
    (XI (XI (XO (XI (XI (XI (XO (XI (XO (XO (XO (XO (XO (XI (XI (XI (XI (XI
    (XO (XO (XO (XI (XO (XO (XI (XO (XI (XI
    XH))))))))))))))))))))))))))))))) :: ((Npos (XI (XI (XI (XI (XO (XI (XI
    (XO (XI (XI (XO (XO (XO (XI (XI (XO (XI (XO (XI (XO (XO (XI (XO (XI (XO
    (XO (XO (XI (XI (XI XH))))))))))))))))))))))))))))))) :: ((Npos (XO (XO
    (XI (XO (XI (XO (XO (XO (XO (XO (XO (XI (XI (XI (XI (XO (XO (XO (XO (XI
    (XO (XO (XI (XI (XO (XO (XI (XO (XO (XO (XO
    XH)))))))))))))))))))))))))))))))) :: ((Npos (XO (XO (XO (XI (XO (XO (XO
    (XO (XO (XI (XO (XO (XO (XO (XO (XO (XI (XI (XI (XO (XO (XO (XI (XI (XO
    (XO (XI (XI (XO (XO (XO XH)))))))))))))))))))))))))))))))) :: ((Npos (XO
    (XI (XO (XI (XI (XI (XI (XI (XI (XI (XI (XI (XI (XI (XI (XI (XO (XI (XI
    (XI (XI (XI (XO (XI (XO (XO (XO (XO (XI (XO (XO
    XH)))))))))))))))))))))))))))))))) :: ((Npos (XI (XI (XO (XI (XO (XI (XI
    (XI (XO (XO (XI (XI (XO (XI (XI (XO (XO (XO (XO (XO (XI (XO (XI (XO (XO
    (XO (XI (XO (XO (XI (XO XH)))))))))))))))))))))))))))))))) :: ((Npos (XI
    (XI (XI (XO (XI (XI (XI (XI (XI (XI (XO (XO (XO (XI (XO (XI (XI (XO (XO
    (XI (XI (XI (XI (XI (XO (XI (XI (XI (XI (XI (XO
    XH)))))))))))))))))))))))))))))))) :: ((Npos (XO (XI (XO (XO (XI (XI (XI
    (XI (XO (XO (XO (XI (XI (XI (XI (XO (XI (XO (XO (XO (XI (XI (XI (XO (XO
    (XI (XI (XO (XO (XO (XI
    XH)))))))))))))))))))))))))))))))) :: [])))))))))))))))))))))))))))))))))))))))))))))))))))))))))))))))

(** val h0 : n list **)

let h0 =
  (Npos (XI (XI (XI (XO (XO (XI (XI (XO (XO (XI (XI (XO (XO (XI (XI (XI (XI
    (XO (XO (XI (XO (XO (XO (XO (XO (XI (XO (XI (XO (XI
    XH))))))))))))))))))))))))))))))) :: ((Npos (XI (XO (XI (XO (XO (XO (XO
    (XI (XO (XI (XI (XI (XO (XI (XO (XI (XI (XI (XI (XO (XO (XI (XI (XO (XI
    (XI (XO (XI (XI (XI (XO XH)))))))))))))))))))))))))))))))) :: ((Npos (XO
    (XI (XO (XO (XI (XI (XI (XO (XI (XI (XO (XO (XI (XI (XI (XI (XO (XI (XI
    (XI (XO (XI (XI (XO (XO (XO (XI (XI (XI
    XH)))))))))))))))))))))))))))))) :: ((Npos (XO (XI (XO (XI (XI (XI (XO
    (XO (XI (XO (XI (XO (XI (XI (XI (XI (XI (XI (XI (XI (XO (XO (XI (XO (XI
    (XO (XI (XO (XO (XI (XO XH)))))))))))))))))))))))))))))))) :: ((Npos (XI
    (XI (XI (XI (XI (XI (XI (XO (XO (XI (XO (XO (XI (XO (XI (XO (XO (XI (XI
    (XI (XO (XO (XO (XO (XI (XO (XO (XO (XI (XO
    XH))))))))))))))))))))))))))))))) :: ((Npos (XO (XO (XI (XI (XO (XO (XO
    (XI (XO (XO (XO (XI (XO (XI (XI (XO (XI (XO (XI (XO (XO (XO (XO (XO (XI
    (XI (XO (XI (XI (XO (XO XH)))))))))))))))))))))))))))))))) :: ((Npos (XI
    (XI (XO (XI (XO (XI (XO (XI (XI (XO (XO (XI (XI (XO (XI (XI (XI (XI (XO
    (XO (XO (XO (XO (XI (XI (XI (XI (XI
    XH))))))))))))))))))))))))))))) :: ((Npos (XI (XO (XO (XI (XI (XO (XO (XO
    (XI (XO (XI (XI (XO (XO (XI (XI (XO (XO (XO (XO (XO (XI (XI (XI (XI (XI
    (XO (XI (XI (XO XH))))))))))))))))))))))))))))))) :: [])))))))

(** val next_w : n list -> n **)

let next_w = function
| [] -> N0
| _ :: l ->
  (match l with
   | [] -> N0
   | w2 :: l0 ->
     (match l0 with
      | [] -> N0
      | _ :: l1 ->
        (match l1 with
         | [] -> N0
         | _ :: l2 ->
           (match l2 with
            | [] -> N0
            | _ :: l3 ->
              (match l3 with
               | [] -> N0
               | _ :: l4 ->
                 (match l4 with
                  | [] -> N0
                  | w7 :: l5 ->
                    (match l5 with
                     | [] -> N0
                     | _ :: l6 ->
                       (match l6 with
                        | [] -> N0
                        | _ :: l7 ->
                          (match l7 with
                           | [] -> N0
                           | _ :: l8 ->
                             (match l8 with
                              | [] -> N0
                              | _ :: l9 ->
                                (match l9 with
                                 | [] -> N0
                                 | _ :: l10 ->
                                   (match l10 with
                                    | [] -> N0
                                    | _ :: l11 ->
                                      (match l11 with
                                       | [] -> N0
                                       | _ :: l12 ->
                                         (match l12 with
                                          | [] -> N0
                                          | w15 :: l13 ->
                                            (match l13 with
                                             | [] -> N0
                                             | w16 :: _ ->
                                               add32 (add32 (ssig1 w2) w7)
                                                 (add32 (ssig0 w15) w16))))))))))))))))

(** val round : n list -> n -> n -> n list **)

let round st k0 w =
  match st with
  | [] -> st
  | a :: l ->
    (match l with
     | [] -> st
     | b :: l0 ->
       (match l0 with
        | [] -> st
        | c :: l1 ->
          (match l1 with
           | [] -> st
           | d :: l2 ->
             (match l2 with
              | [] -> st
              | e :: l3 ->
                (match l3 with
                 | [] -> st
                 | f :: l4 ->
                   (match l4 with
                    | [] -> st
                    | g :: l5 ->
                      (match l5 with
                       | [] -> st
                       | h :: l6 ->
                         (match l6 with
                          | [] ->
                            let t1 =
                              add32
                                (add32 (add32 h (bsig1 e))
                                  (add32 (ch e f g) k0)) w
                            in
                            let t2 = add32 (bsig0 a) (maj a b c) in
                            (add32 t1 t2) :: (a :: (b :: (c :: ((add32 d t1) :: (e :: (f :: (g :: [])))))))
                          | _ :: _ -> st))))))))

(** val rounds16 :
    n list -> n list -> n list -> n list -> (n list * n list) * n list **)

let rec rounds16 st ks ws hist =
  match ws with
  | [] -> ((st, ks), hist)
  | w :: ws' ->
    (match ks with
     | [] -> ((st, ks), hist)
     | k0 :: ks' -> rounds16 (round st k0 w) ks' ws' (w :: hist))

(** val rounds48 : n list -> n list -> n list -> n list **)

let rec rounds48 st ks hist =
  match ks with
  | [] -> st
  | k0 :: ks' ->
    let w = next_w hist in
    rounds48 (round st k0 w) ks'
      (w :: (firstn (S (S (S (S (S (S (S (S (S (S (S (S (S (S (S
              O))))))))))))))) hist))

(** val compress : n list -> n list -> n list **)

let compress h block =
  let (p, hist) = rounds16 h k block [] in
  let (st, ks) = p in
  let st' = rounds48 st ks hist in
  map (fun p0 -> add32 (fst p0) (snd p0)) (combine h st')

(** val words_of_bytes : n list -> n list **)

let rec words_of_bytes = function
| [] -> []
| a :: l0 ->
  (match l0 with
   | [] -> []
   | b :: l1 ->
     (match l1 with
      | [] -> []
      | c :: l2 ->
        (match l2 with
         | [] -> []
         | d :: t ->
           (N.add
             (N.add
               (N.add
                 (N.mul a (Npos (XO (XO (XO (XO (XO (XO (XO (XO (XO (XO (XO
                   (XO (XO (XO (XO (XO (XO (XO (XO (XO (XO (XO (XO (XO
                   XH))))))))))))))))))))))))))
                 (N.mul b (Npos (XO (XO (XO (XO (XO (XO (XO (XO (XO (XO (XO
                   (XO (XO (XO (XO (XO XH)))))))))))))))))))
               (N.mul c (Npos (XO (XO (XO (XO (XO (XO (XO (XO XH))))))))))) d) :: 
             (words_of_bytes t))))

(** val blocks : nat -> n list -> n list -> n list **)

let rec blocks fuel h ws =
  match fuel with
  | O -> h
  | S f ->
    (match ws with
     | [] -> h
     | _ :: _ ->
       blocks f
         (compress h
           (firstn (S (S (S (S (S (S (S (S (S (S (S (S (S (S (S (S
             O)))))))))))))))) ws))
         (skipn (S (S (S (S (S (S (S (S (S (S (S (S (S (S (S (S
           O)))))))))))))))) ws))

(** val be_bytes : nat -> n -> n list **)

let be_bytes n0 v =
  rev
    (map (fun i ->
      N.coq_land (N.shiftr v (N.mul (Npos (XO (XO (XO XH)))) (N.of_nat i)))
        (Npos (XI (XI (XI (XI (XI (XI (XI XH))))))))) (seq O n0))

(** val pad : nat -> n list **)

let pad len0 =
  let zeros0 =
    modulo
      (sub (S (S (S (S (S (S (S (S (S (S (S (S (S (S (S (S (S (S (S (S (S (S
        (S (S (S (S (S (S (S (S (S (S (S (S (S (S (S (S (S (S (S (S (S (S (S
        (S (S (S (S (S (S (S (S (S (S (S (S (S (S (S (S (S (S (S (S (S (S (S
        (S (S (S (S (S (S (S (S (S (S (S (S (S (S (S (S (S (S (S (S (S (S (S
        (S (S (S (S (S (S (S (S (S (S (S (S (S (S (S (S (S (S (S (S (S (S (S
        (S (S (S (S (S
        O)))))))))))))))))))))))))))))))))))))))))))))))))))))))))))))))))))))))))))))))))))))))))))))))))))))))))))))))))))))))
        (modulo len0 (S (S (S (S (S (S (S (S (S (S (S (S (S (S (S (S (S (S (S
          (S (S (S (S (S (S (S (S (S (S (S (S (S (S (S (S (S (S (S (S (S (S
          (S (S (S (S (S (S (S (S (S (S (S (S (S (S (S (S (S (S (S (S (S (S
          (S
          O))))))))))))))))))))))))))))))))))))))))))))))))))))))))))))))))))
      (S (S (S (S (S (S (S (S (S (S (S (S (S (S (S (S (S (S (S (S (S (S (S (S
      (S (S (S (S (S (S (S (S (S (S (S (S (S (S (S (S (S (S (S (S (S (S (S (S
      (S (S (S (S (S (S (S (S (S (S (S (S (S (S (S (S
      O))))))))))))))))))))))))))))))))))))))))))))))))))))))))))))))))
  in
  (Npos (XO (XO (XO (XO (XO (XO (XO
  XH)))))))) :: (app (repeat N0 zeros0)
                  (be_bytes (S (S (S (S (S (S (S (S O))))))))
                    (N.mul (Npos (XO (XO (XO XH)))) (N.of_nat len0))))

(** val sha256 : n list -> n list **)

let sha256 msg0 =
  let len0 = length msg0 in
  let ws = words_of_bytes (app msg0 (pad len0)) in
  let h =
    blocks (S
      (add
        (div len0 (S (S (S (S (S (S (S (S (S (S (S (S (S (S (S (S (S (S (S (S
          (S (S (S (S (S (S (S (S (S (S (S (S (S (S (S (S (S (S (S (S (S (S
          (S (S (S (S (S (S (S (S (S (S (S (S (S (S (S (S (S (S (S (S (S (S
          O)))))))))))))))))))))))))))))))))))))))))))))))))))))))))))))))))
        (S (S O)))) h0 ws
  in
  flat_map (be_bytes (S (S (S (S O))))) h

(** val crc_poly : n **)

let crc_poly =
  Npos (XO (XO (XO (XI (XI (XI (XI (XO (XI (XI (XO (XI (XI (XI (XO (XO (XO
    (XI (XI (XO (XI (XI (XI (XI (XO (XI (XO (XO (XO (XO (XO
    XH)))))))))))))))))))))))))))))))

(** val crc_bits : nat -> n -> n **)

let rec crc_bits n0 c =
  match n0 with
  | O -> c
  | S n' ->
    let c' =
      if N.odd c
      then N.coq_lxor (N.shiftr c (Npos XH)) crc_poly
      else N.shiftr c (Npos XH)
    in
    crc_bits n' c'

(** val crc_byte : n -> n -> n **)

let crc_byte c b =
  crc_bits (S (S (S (S (S (S (S (S O)))))))) (N.coq_lxor c b)

(** val crc32c : n list -> n **)

let crc32c l =
  N.coq_lxor
    (fold_left crc_byte l (Npos (XI (XI (XI (XI (XI (XI (XI (XI (XI (XI (XI
      (XI (XI (XI (XI (XI (XI (XI (XI (XI (XI (XI (XI (XI (XI (XI (XI (XI (XI
      (XI (XI XH))))))))))))))))))))))))))))))))) (Npos (XI (XI (XI (XI (XI
    (XI (XI (XI (XI (XI (XI (XI (XI (XI (XI (XI (XI (XI (XI (XI (XI (XI (XI
    (XI (XI (XI (XI (XI (XI (XI (XI XH))))))))))))))))))))))))))))))))

type bytes = n list

type node = { n_special : bool; n_type : n; n_mask : n; n_bits : bits;
              n_refs : nat list }

(** val take_drop : nat -> bytes -> (bytes * bytes) res **)

let take_drop n0 l =
  if short n0 l then Panic pSlice else Ok ((firstn n0 l), (skipn n0 l))

(** val two0 : n **)

let two0 =
  Npos (XO (XO (XO (XO (XO (XO (XO (XO (XO (XO (XO (XO (XO (XO (XO (XO (XO
    (XO (XO (XO (XO (XO (XO (XO (XO (XO (XO (XO (XO (XO (XO (XO (XO (XO (XO
    (XO (XO (XO (XO (XO (XO (XO (XO (XO (XO (XO (XO (XO (XO (XO (XO (XO (XO
    (XO (XO (XO (XO (XO (XO (XO (XO (XO (XO (XO
    XH))))))))))))))))))))))))))))))))))))))))))))))))))))))))))))))))

(** val read_be : nat -> bytes -> n res **)

let read_be n0 l =
  if short n0 l
  then Panic pIndex
  else Ok
         (fold_left (fun acc b ->
           N.modulo
             (N.add
               (N.mul acc (Npos (XO (XO (XO (XO (XO (XO (XO (XO XH))))))))))
               b) two0) (firstn n0 l) N0)

(** val read_be_drop : nat -> bytes -> (n * bytes) res **)

let read_be_drop n0 l =
  bind (read_be n0 l) (fun v -> Ok (v, (skipn n0 l)))

type header = { h_idx : bool; h_crc : bool; h_cache : bool; h_size : 
                nat; h_cells : n; h_roots : n; h_absent : n; h_tot : 
                n; h_rootlist : n list; h_index : n list; h_data : bytes;
                h_alloc : n }

(** val magic_reach : bytes **)

let magic_reach =
  (Npos (XI (XO (XI (XO (XI (XI (XO XH)))))))) :: ((Npos (XO (XI (XI (XI (XO
    (XI (XI XH)))))))) :: ((Npos (XO (XO (XI (XI (XI (XO (XO
    XH)))))))) :: ((Npos (XO (XI (XO (XO (XI (XI XH))))))) :: [])))

(** val magic_lean : bytes **)

let magic_lean =
  (Npos (XO (XO (XO (XI (XO (XI XH))))))) :: ((Npos (XI (XI (XI (XI (XI (XI
    (XI XH)))))))) :: ((Npos (XI (XO (XI (XO (XO (XI XH))))))) :: ((Npos (XI
    (XI (XO (XO (XI (XI (XI XH)))))))) :: [])))

(** val magic_lean_crc : bytes **)

let magic_lean_crc =
  (Npos (XO (XO (XI (XI (XO (XI (XO XH)))))))) :: ((Npos (XI (XI (XO (XO (XO
    (XO (XI XH)))))))) :: ((Npos (XI (XI (XI (XO (XO (XI (XO
    XH)))))))) :: ((Npos (XO (XO (XO (XI (XO XH)))))) :: [])))

(** val bytes_eqb : bytes -> bytes -> bool **)

let bytes_eqb a b =
  (&&) (Nat.eqb (length a) (length b))
    (forallb (fun p -> N.eqb (fst p) (snd p)) (combine a b))

(** val read_list :
    nat -> nat -> bool -> bytes -> n list -> (n list * bytes) res **)

let rec read_list k0 w halve l acc =
  match k0 with
  | O -> Ok ((rev acc), l)
  | S k' ->
    bind (read_be_drop w l) (fun vr ->
      let (v, l') = vr in
      read_list k' w halve l'
        ((if halve then N.div v (Npos (XO XH)) else v) :: acc))

(** val le32 : bytes -> n **)

let le32 = function
| [] -> N0
| a :: l0 ->
  (match l0 with
   | [] -> N0
   | b :: l1 ->
     (match l1 with
      | [] -> N0
      | c :: l2 ->
        (match l2 with
         | [] -> N0
         | d :: _ ->
           N.add
             (N.add
               (N.add a
                 (N.mul (Npos (XO (XO (XO (XO (XO (XO (XO (XO XH))))))))) b))
               (N.mul (Npos (XO (XO (XO (XO (XO (XO (XO (XO (XO (XO (XO (XO
                 (XO (XO (XO (XO XH))))))))))))))))) c))
             (N.mul (Npos (XO (XO (XO (XO (XO (XO (XO (XO (XO (XO (XO (XO (XO
               (XO (XO (XO (XO (XO (XO (XO (XO (XO (XO (XO
               XH))))))))))))))))))))))))) d))))

(** val eParse : n **)

let eParse =
  Npos (XO (XO (XI (XO XH))))

(** val parse_header : bytes -> header res **)

let parse_header boc =
  if short (S (S (S (S (S O))))) boc
  then Err eParse
  else let n0 = length boc in
       bind (take_drop (S (S (S (S O)))) boc) (fun pr ->
         let (prefix, boc0) = pr in
         (match boc0 with
          | [] -> Panic pIndex
          | fb :: boc1 ->
            let cfg =
              if bytes_eqb prefix magic_reach
              then Some ((((N.testbit fb (Npos (XI (XI XH)))),
                     (N.testbit fb (Npos (XO (XI XH))))),
                     (N.testbit fb (Npos (XI (XO XH))))),
                     (N.to_nat (N.modulo fb (Npos (XO (XO (XO XH)))))))
              else if bytes_eqb prefix magic_lean
                   then Some (((true, false), false), (N.to_nat fb))
                   else if bytes_eqb prefix magic_lean_crc
                        then Some (((true, true), false), (N.to_nat fb))
                        else None
            in
            (match cfg with
             | Some p ->
               let (p0, size0) = p in
               let (p1, hasCache) = p0 in
               let (hasIdx, hasCrc) = p1 in
               if short (add (S O) (mul (S (S (S O))) size0)) boc1
               then Err eParse
               else (match boc1 with
                     | [] -> Panic pIndex
                     | ob :: boc2 ->
                       let off = N.to_nat ob in
                       bind (read_be_drop size0 boc2) (fun r1 ->
                         let (cells, b3) = r1 in
                         bind (read_be_drop size0 b3) (fun r2 ->
                           let (roots, b4) = r2 in
                           bind (read_be_drop size0 b4) (fun r3 ->
                             let (absent, b5) = r3 in
                             if short off b5
                             then Err eParse
                             else bind (read_be_drop off b5) (fun r4 ->
                                    let (tot, b6) = r4 in
                                    let rem = N.of_nat (length b6) in
                                    if (||) (N.ltb rem roots)
                                         (N.ltb rem
                                           (N.mul roots (N.of_nat size0)))
                                    then Err eParse
                                    else if N.ltb rem cells
                                         then Err eParse
                                         else bind
                                                (read_list (N.to_nat roots)
                                                  size0 false b6 [])
                                                (fun rl ->
                                                let (rootlist, b7) = rl in
                                                bind
                                                  (if hasIdx
                                                   then if N.ltb
                                                             (N.of_nat
                                                               (length b7))
                                                             (N.mul
                                                               (N.of_nat off)
                                                               cells)
                                                        then Err eParse
                                                        else read_list
                                                               (N.to_nat
                                                                 cells) off
                                                               hasCache b7 []
                                                   else Ok ([], b7))
                                                  (fun ix ->
                                                  let (index, b8) = ix in
                                                  if N.ltb
                                                       (N.of_nat (length b8))
                                                       tot
                                                  then Err eParse
                                                  else bind
                                                         (take_drop
                                                           (N.to_nat tot) b8)
                                                         (fun cd ->
                                                         let (data, b9) = cd
                                                         in
                                                         bind
                                                           (if hasCrc
                                                            then if short (S
                                                                    (S (S (S
                                                                    O)))) b9
                                                                 then 
                                                                   Err eParse
                                                                 else 
                                                                   if 
                                                                    negb
                                                                    (N.eqb
                                                                    (le32 b9)
                                                                    (crc32c
                                                                    (firstn
                                                                    (sub n0
                                                                    (S (S (S
                                                                    (S O)))))
                                                                    (app
                                                                    prefix
                                                                    (fb :: boc1)))))
                                                                   then 
                                                                    Err eParse
                                                                   else 
                                                                    Ok
                                                                    (skipn (S
                                                                    (S (S (S
                                                                    O)))) b9)
                                                            else Ok b9)
                                                           (fun b10 ->
                                                           match b10 with
                                                           | [] ->
                                                             Ok { h_idx =
                                                               hasIdx;
                                                               h_crc =
                                                               hasCrc;
                                                               h_cache =
                                                               hasCache;
                                                               h_size =
                                                               size0;
                                                               h_cells =
                                                               cells;
                                                               h_roots =
                                                               roots;
                                                               h_absent =
                                                               absent;
                                                               h_tot = tot;
                                                               h_rootlist =
                                                               rootlist;
                                                               h_index =
                                                               index;
                                                               h_data = data;
                                                               h_alloc =
                                                               (N.add
                                                                 (N.mul (Npos
                                                                   (XO (XO
                                                                   (XO XH))))
                                                                   roots)
                                                                 (N.mul (Npos
                                                                   (XO (XO
                                                                   (XO XH))))
                                                                   cells)) }
                                                           | _ :: _ ->
                                                             Err eParse)))))))))
             | None -> Err eParse)))

(** val popcount3 : n -> nat **)

let popcount3 m =
  add
    (add (if N.testbit m N0 then S O else O)
      (if N.testbit m (Npos XH) then S O else O))
    (if N.testbit m (Npos (XO XH)) then S O else O)

(** val strip_go : nat -> bits -> bits option **)

let rec strip_go k0 r =
  match k0 with
  | O -> None
  | S k' ->
    (match r with
     | [] -> None
     | b :: rest -> if b then Some (rev rest) else strip_go k' rest)

(** val strip_completion : bits -> bits option **)

let strip_completion l =
  strip_go (S (S (S (S (S (S (S O))))))) (rev l)

(** val bytes_bits0 : bytes -> bits **)

let rec bytes_bits0 = function
| [] -> []
| b :: t -> app (bits_of (S (S (S (S (S (S (S (S O)))))))) b) (bytes_bits0 t)

(** val top_upped_bits : bytes -> bool -> bits res **)

let top_upped_bits data fulfilled =
  let all = bytes_bits0 data in
  if (||) fulfilled (Nat.eqb (length data) O)
  then Ok all
  else (match strip_completion all with
        | Some b -> Ok b
        | None -> Err eParse)

type rnode = { rn_special : bool; rn_type : n; rn_mask : n; rn_bits : 
               bits; rn_refs : n list }

(** val read_refs : nat -> nat -> bytes -> n list -> (n list * bytes) res **)

let rec read_refs k0 w l acc =
  match k0 with
  | O -> Ok ((rev acc), l)
  | S k' ->
    bind (read_be_drop w l) (fun vr ->
      let (v, l') = vr in read_refs k' w l' (v :: acc))

(** val parse_cell : bytes -> nat -> (rnode * bytes) res **)

let parse_cell cd refsz =
  match cd with
  | [] -> Err eParse
  | d1 :: l ->
    (match l with
     | [] -> Err eParse
     | d2 :: cd1 ->
       let isExotic = N.testbit d1 (Npos (XI XH)) in
       let refNum = N.to_nat (N.modulo d1 (Npos (XO (XO (XO XH))))) in
       let dataBytes =
         N.to_nat
           (N.add (N.div d2 (Npos (XO XH))) (N.modulo d2 (Npos (XO XH))))
       in
       let fulfilled = N.eqb (N.modulo d2 (Npos (XO XH))) N0 in
       let withHashes = N.testbit d1 (Npos (XO (XO XH))) in
       let mask0 = N.div d1 (Npos (XO (XO (XO (XO (XO XH)))))) in
       bind
         (if withHashes
          then let offset =
                 mul (add (popcount3 mask0) (S O)) (S (S (S (S (S (S (S (S (S
                   (S (S (S (S (S (S (S (S (S (S (S (S (S (S (S (S (S (S (S
                   (S (S (S (S (S (S O))))))))))))))))))))))))))))))))))
               in
               if short offset cd1 then Err eParse else Ok (skipn offset cd1)
          else Ok cd1) (fun cd2 ->
         if short (add dataBytes (mul refsz refNum)) cd2
         then Err eParse
         else bind
                (if isExotic
                 then if Nat.ltb dataBytes (S O)
                      then Err eParse
                      else (match cd2 with
                            | [] -> Panic pIndex
                            | t :: _ -> Ok t)
                 else Ok N0) (fun ty ->
                bind (take_drop dataBytes cd2) (fun dr ->
                  let (data, cd3) = dr in
                  bind (top_upped_bits data fulfilled) (fun b ->
                    bind (read_refs refNum refsz cd3 []) (fun rr ->
                      let (refs, cd4) = rr in
                      Ok ({ rn_special =
                      ((&&) isExotic (negb (N.eqb ty N0))); rn_type = ty;
                      rn_mask = mask0; rn_bits = b; rn_refs = refs }, cd4)))))))

(** val parse_cells : nat -> nat -> bytes -> rnode list -> rnode list res **)

let rec parse_cells k0 refsz cd acc =
  match k0 with
  | O -> Ok (rev acc)
  | S k' ->
    bind (parse_cell cd refsz) (fun cr ->
      let (c, cd') = cr in parse_cells k' refsz cd' (c :: acc))

(** val refs_ok : n -> n -> n list -> bool **)

let refs_ok n0 i refs =
  (&&) (Nat.leb (length refs) (S (S (S (S O)))))
    (forallb (fun r -> (&&) (N.ltb i r) (N.ltb r n0)) refs)

(** val check_refs : n -> n -> rnode list -> bool **)

let rec check_refs n0 i = function
| [] -> true
| c :: t -> (&&) (refs_ok n0 i c.rn_refs) (check_refs n0 (N.succ i) t)

(** val node_of : rnode -> node **)

let node_of c =
  { n_special = c.rn_special; n_type = c.rn_type; n_mask = c.rn_mask;
    n_bits = c.rn_bits; n_refs = (map N.to_nat c.rn_refs) }

type parsed = { p_cells : node list; p_roots : nat list; p_alloc : n }

(** val cell_alloc : n **)

let cell_alloc =
  Npos (XO (XO (XO (XI (XI (XO (XI (XO (XO XH)))))))))

(** val parse_boc : bytes -> parsed res **)

let parse_boc boc =
  bind (parse_header boc) (fun h ->
    bind (parse_cells (N.to_nat h.h_cells) h.h_size h.h_data [])
      (fun cells ->
      let n0 = N.of_nat (length cells) in
      if negb (check_refs n0 N0 cells)
      then Err eParse
      else if negb (forallb (fun r -> N.ltb r n0) h.h_rootlist)
           then Err eParse
           else Ok { p_cells = (map node_of cells); p_roots =
                  (map N.to_nat h.h_rootlist); p_alloc =
                  (N.add
                    (N.add
                      (N.add h.h_alloc
                        (N.mul (Npos (XO (XO (XO (XO XH))))) h.h_cells))
                      (N.mul cell_alloc h.h_cells))
                    (N.mul (Npos (XO (XO (XO XH))))
                      (N.of_nat (length h.h_rootlist)))) }))

(** val t_PRUNED : n **)

let t_PRUNED =
  Npos XH

(** val t_MPROOF : n **)

let t_MPROOF =
  Npos (XI XH)

(** val t_MUPDATE : n **)

let t_MUPDATE =
  Npos (XO (XO XH))

(** val eDepth : n **)

let eDepth =
  Npos (XI (XO (XI (XO XH))))

(** val mask_level : n -> nat **)

let mask_level m =
  N.to_nat (N.size m)

(** val mask_popcount : n -> nat **)

let mask_popcount =
  popcount3

(** val mask_apply : n -> nat -> n **)

let mask_apply m level =
  N.coq_land m (N.sub (N.pow (Npos (XO XH)) (N.of_nat level)) (Npos XH))

(** val mask_significant : n -> nat -> bool **)

let mask_significant m = function
| O -> true
| S l -> N.testbit m (N.of_nat l)

type imm = { im_special : bool; im_type : n; im_mask : n; im_bits : bits;
             im_nrefs : nat; im_hashes : bytes list; im_depths : n list }

(** val is_pruned : bool -> n -> bool **)

let is_pruned special ty =
  (&&) special (N.eqb ty t_PRUNED)

(** val is_merkle : bool -> n -> bool **)

let is_merkle special ty =
  (&&) special ((||) (N.eqb ty t_MPROOF) (N.eqb ty t_MUPDATE))

(** val bits_bytes : nat -> bits -> bytes **)

let rec bits_bytes n0 l =
  match n0 with
  | O -> []
  | S n' ->
    (n_of_bits
      (firstn (S (S (S (S (S (S (S (S O))))))))
        (app l (zeros (S (S (S (S (S (S (S (S O)))))))))))) :: (bits_bytes n'
                                                                 (skipn (S (S
                                                                   (S (S (S
                                                                   (S (S (S
                                                                   O))))))))
                                                                   l))

(** val buf_bytes : bits -> bytes **)

let buf_bytes l =
  bits_bytes (S (S (S (S (S (S (S (S (S (S (S (S (S (S (S (S (S (S (S (S (S
    (S (S (S (S (S (S (S (S (S (S (S (S (S (S (S (S (S (S (S (S (S (S (S (S
    (S (S (S (S (S (S (S (S (S (S (S (S (S (S (S (S (S (S (S (S (S (S (S (S
    (S (S (S (S (S (S (S (S (S (S (S (S (S (S (S (S (S (S (S (S (S (S (S (S
    (S (S (S (S (S (S (S (S (S (S (S (S (S (S (S (S (S (S (S (S (S (S (S (S
    (S (S (S (S (S (S (S (S (S (S (S
    O))))))))))))))))))))))))))))))))))))))))))))))))))))))))))))))))))))))))))))))))))))))))))))))))))))))))))))))))))))))))))))))))
    l

(** val imm_hash : imm -> nat -> bytes res **)

let imm_hash c level =
  let index = mask_popcount (mask_apply c.im_mask level) in
  if is_pruned c.im_special c.im_type
  then let offset = mask_popcount c.im_mask in
       if negb (Nat.eqb index offset)
       then Ok
              (firstn (S (S (S (S (S (S (S (S (S (S (S (S (S (S (S (S (S (S
                (S (S (S (S (S (S (S (S (S (S (S (S (S (S
                O))))))))))))))))))))))))))))))))
                (skipn
                  (add (S (S O))
                    (mul index (S (S (S (S (S (S (S (S (S (S (S (S (S (S (S
                      (S (S (S (S (S (S (S (S (S (S (S (S (S (S (S (S (S
                      O))))))))))))))))))))))))))))))))))
                  (buf_bytes c.im_bits)))
       else (match nth_error c.im_hashes O with
             | Some h -> Ok h
             | None -> Panic pIndex)
  else (match nth_error c.im_hashes index with
        | Some h -> Ok h
        | None -> Panic pIndex)

(** val imm_depth : imm -> nat -> n res **)

let imm_depth c level =
  let index = mask_popcount (mask_apply c.im_mask level) in
  if is_pruned c.im_special c.im_type
  then let offset = mask_popcount c.im_mask in
       if negb (Nat.eqb index offset)
       then (match skipn
                     (add
                       (add (S (S O))
                         (mul (S (S (S (S (S (S (S (S (S (S (S (S (S (S (S (S
                           (S (S (S (S (S (S (S (S (S (S (S (S (S (S (S (S
                           O)))))))))))))))))))))))))))))))) offset))
                       (mul index (S (S O)))) (buf_bytes c.im_bits) with
             | [] -> Panic pIndex
             | a :: l ->
               (match l with
                | [] -> Panic pIndex
                | b :: _ ->
                  Ok
                    (N.add
                      (N.mul a (Npos (XO (XO (XO (XO (XO (XO (XO (XO
                        XH)))))))))) b)))
       else (match nth_error c.im_depths O with
             | Some d -> Ok d
             | None -> Panic pIndex)
  else (match nth_error c.im_depths index with
        | Some d -> Ok d
        | None -> Panic pIndex)

(** val d1_byte : nat -> bool -> n -> n **)

let d1_byte nrefs special mask0 =
  N.modulo
    (N.add
      (N.add (N.of_nat nrefs)
        (if special then Npos (XO (XO (XO XH))) else N0))
      (N.mul (Npos (XO (XO (XO (XO (XO XH)))))) mask0)) (Npos (XO (XO (XO (XO
    (XO (XO (XO (XO XH)))))))))

(** val d2_byte : nat -> n **)

let d2_byte nbits =
  N.of_nat
    (add
      (Nat.div (add nbits (S (S (S (S (S (S (S O)))))))) (S (S (S (S (S (S (S
        (S O))))))))) (Nat.div nbits (S (S (S (S (S (S (S (S O))))))))))

(** val data_with_tag : bits -> bytes **)

let data_with_tag l =
  let n0 = length l in
  if Nat.eqb (Nat.modulo n0 (S (S (S (S (S (S (S (S O))))))))) O
  then bits_bytes (Nat.div n0 (S (S (S (S (S (S (S (S O))))))))) l
  else bits_bytes
         (Nat.div (add n0 (S (S (S (S (S (S (S O)))))))) (S (S (S (S (S (S (S
           (S O))))))))) (app l (true :: []))

(** val repr_no_refs : nat -> bool -> n -> bits -> bytes **)

let repr_no_refs nrefs special mask0 l =
  (d1_byte nrefs special mask0) :: ((d2_byte (length l)) :: (data_with_tag l))

(** val be16 : n -> bytes **)

let be16 d =
  (N.modulo (N.div d (Npos (XO (XO (XO (XO (XO (XO (XO (XO XH)))))))))) (Npos
    (XO (XO (XO (XO (XO (XO (XO (XO XH)))))))))) :: ((N.modulo d (Npos (XO
                                                       (XO (XO (XO (XO (XO
                                                       (XO (XO XH)))))))))) :: [])

(** val mapM : ('a1 -> 'a2 res) -> 'a1 list -> 'a2 list res **)

let rec mapM f = function
| [] -> Ok []
| a :: t -> bind (f a) (fun b -> bind (mapM f t) (fun bs0 -> Ok (b :: bs0)))

(** val build_loop :
    (bytes -> bytes) -> bool -> n -> n -> bits -> imm list -> nat list -> nat
    -> bytes list -> n list -> (bytes list * n list) res **)

let rec build_loop h special ty mask0 l refs levels seen hashes depths =
  match levels with
  | [] -> Ok (hashes, depths)
  | i :: rest ->
    if negb (mask_significant mask0 i)
    then build_loop h special ty mask0 l refs rest seen hashes depths
    else let offset = if is_pruned special ty then mask_popcount mask0 else O
         in
         if Nat.ltb seen offset
         then build_loop h special ty mask0 l refs rest (S seen) hashes depths
         else bind
                (if Nat.eqb seen offset
                 then Ok
                        (repr_no_refs (length refs) special
                          (mask_apply mask0 i) l)
                 else (match nth_error hashes (sub (sub seen offset) (S O)) with
                       | Some h1 ->
                         Ok
                           ((d1_byte (length refs) special
                              (mask_apply mask0 i)) :: ((d2_byte (length l)) :: h1))
                       | None -> Panic pIndex)) (fun head0 ->
                let child = if is_merkle special ty then S i else i in
                bind (mapM (fun r -> imm_depth r child) refs) (fun cdepths ->
                  let maxd = fold_left N.max cdepths N0 in
                  if (&&) (negb (Nat.eqb (length refs) O))
                       (N.leb (Npos (XO (XO (XO (XO (XO (XO (XO (XO (XO (XO
                         XH))))))))))) maxd)
                  then Err eDepth
                  else let depth =
                         if Nat.eqb (length refs) O
                         then N0
                         else N.add maxd (Npos XH)
                       in
                       bind (mapM (fun r -> imm_hash r child) refs)
                         (fun chashes ->
                         let h1 =
                           h
                             (app head0
                               (app (flat_map be16 cdepths) (concat chashes)))
                         in
                         build_loop h special ty mask0 l refs rest (S seen)
                           (app hashes (h1 :: [])) (app depths (depth :: [])))))

(** val build_imm :
    (bytes -> bytes) -> bool -> n -> n -> bits -> imm list -> imm res **)

let build_imm h special ty mask0 l refs =
  bind
    (build_loop h special ty mask0 l refs (seq O (S (mask_level mask0))) O []
      []) (fun hd ->
    let (hs, ds) = hd in
    Ok { im_special = special; im_type = ty; im_mask = mask0; im_bits = l;
    im_nrefs = (length refs); im_hashes = hs; im_depths = ds })

(** val lookup_refs : imm res list -> nat -> nat list -> imm list res **)

let rec lookup_refs done0 base = function
| [] -> Ok []
| r :: t ->
  (match nth_error done0 (sub r base) with
   | Some rc ->
     bind rc (fun c ->
       bind (lookup_refs done0 base t) (fun cs -> Ok (c :: cs)))
   | None -> Panic pNil)

(** val eval_dag : (bytes -> bytes) -> nat -> node list -> imm res list **)

let rec eval_dag h i = function
| [] -> []
| c :: rest ->
  let done0 = eval_dag h (S i) rest in
  let im =
    bind (lookup_refs done0 (S i) c.n_refs) (fun refs ->
      build_imm h c.n_special c.n_type c.n_mask c.n_bits refs)
  in
  im :: done0

(** val cell_hash : imm -> bytes res **)

let cell_hash c =
  imm_hash c (S (S (S O)))

(** val cell_depth : imm -> n res **)

let cell_depth c =
  imm_depth c (S (S (S O)))

(** val sx_res : ('a1 -> sx) -> 'a1 res -> sx **)

let sx_res f = function
| Ok a -> f a
| Err _ ->
  SA (String ((Ascii (true, false, true, false, false, true, true, false)),
    (String ((Ascii (false, true, false, false, true, true, true, false)),
    (String ((Ascii (false, true, false, false, true, true, true, false)),
    EmptyString))))))
| Panic _ ->
  SA (String ((Ascii (false, false, false, false, true, true, true, false)),
    (String ((Ascii (true, false, false, false, false, true, true, false)),
    (String ((Ascii (false, true, true, true, false, true, true, false)),
    (String ((Ascii (true, false, false, true, false, true, true, false)),
    (String ((Ascii (true, true, false, false, false, true, true, false)),
    EmptyString))))))))))

(** val root_info : node list -> imm res list -> nat -> sx **)

let root_info cells imms r =
  match nth_error cells r with
  | Some nd ->
    (match nth_error imms r with
     | Some ri ->
       SL
         ((sx_res (fun x -> SBytes x) (bind ri cell_hash)) :: ((sx_res
                                                                 (fun x -> SN
                                                                 x)
                                                                 (bind ri
                                                                   cell_depth)) :: (
         (sx_nat (mask_level nd.n_mask)) :: ((sx_nat (length nd.n_bits)) :: (
         (sx_nat (length nd.n_refs)) :: ((SB nd.n_special) :: ((SN
         nd.n_type) :: [])))))))
     | None ->
       sx_err (String ((Ascii (false, true, false, false, true, true, true,
         false)), (String ((Ascii (true, true, true, true, false, true, true,
         false)), (String ((Ascii (true, true, true, true, false, true, true,
         false)), (String ((Ascii (false, false, true, false, true, true,
         true, false)), (String ((Ascii (false, false, false, false, false,
         true, false, false)), (String ((Ascii (true, false, false, true,
         false, true, true, false)), (String ((Ascii (false, true, true,
         true, false, true, true, false)), (String ((Ascii (false, false,
         true, false, false, true, true, false)), (String ((Ascii (true,
         false, true, false, false, true, true, false)), (String ((Ascii
         (false, false, false, true, true, true, true, false)),
         EmptyString)))))))))))))))))))))
  | None ->
    sx_err (String ((Ascii (false, true, false, false, true, true, true,
      false)), (String ((Ascii (true, true, true, true, false, true, true,
      false)), (String ((Ascii (true, true, true, true, false, true, true,
      false)), (String ((Ascii (false, false, true, false, true, true, true,
      false)), (String ((Ascii (false, false, false, false, false, true,
      false, false)), (String ((Ascii (true, false, false, true, false, true,
      true, false)), (String ((Ascii (false, true, true, true, false, true,
      true, false)), (String ((Ascii (false, false, true, false, false, true,
      true, false)), (String ((Ascii (true, false, true, false, false, true,
      true, false)), (String ((Ascii (false, false, false, true, true, true,
      true, false)), EmptyString))))))))))))))))))))

(** val run_parse : sx -> sx **)

let run_parse = function
| SBytes bs0 ->
  (match parse_boc bs0 with
   | Ok p ->
     let imms = eval_dag sha256 O p.p_cells in
     SL (map (root_info p.p_cells imms) p.p_roots)
   | Err _ ->
     SA (String ((Ascii (true, false, true, false, false, true, true,
       false)), (String ((Ascii (false, true, false, false, true, true, true,
       false)), (String ((Ascii (false, true, false, false, true, true, true,
       false)), EmptyString))))))
   | Panic _ ->
     SA (String ((Ascii (false, false, false, false, true, true, true,
       false)), (String ((Ascii (true, false, false, false, false, true,
       true, false)), (String ((Ascii (false, true, true, true, false, true,
       true, false)), (String ((Ascii (true, false, false, true, false, true,
       true, false)), (String ((Ascii (true, true, false, false, false, true,
       true, false)), EmptyString)))))))))))
| _ ->
  sx_err (String ((Ascii (false, false, false, false, true, true, true,
    false)), (String ((Ascii (true, false, false, false, false, true, true,
    false)), (String ((Ascii (false, true, false, false, true, true, true,
    false)), (String ((Ascii (true, true, false, false, true, true, true,
    false)), (String ((Ascii (true, false, true, false, false, true, true,
    false)), EmptyString))))))))))

(** val node_of_sx : sx -> node option **)

let node_of_sx = function
| SL l ->
  (match l with
   | [] -> None
   | s :: l0 ->
     (match s with
      | SB special ->
        (match l0 with
         | [] -> None
         | s0 :: l1 ->
           (match s0 with
            | SN mask0 ->
              (match l1 with
               | [] -> None
               | s1 :: l2 ->
                 (match s1 with
                  | SBits b ->
                    (match l2 with
                     | [] -> None
                     | s2 :: l3 ->
                       (match s2 with
                        | SL refs ->
                          (match l3 with
                           | [] ->
                             let ty =
                               if special
                               then n_of_bits
                                      (firstn (S (S (S (S (S (S (S (S
                                        O)))))))) b)
                               else N0
                             in
                             let special' = (&&) special (negb (N.eqb ty N0))
                             in
                             let rs =
                               map (fun r ->
                                 match r with
                                 | SN n0 -> N.to_nat n0
                                 | _ -> O) refs
                             in
                             Some { n_special = special'; n_type =
                             (if special' then ty else N0); n_mask = mask0;
                             n_bits = b; n_refs = rs }
                           | _ :: _ -> None)
                        | _ -> None))
                  | _ -> None))
            | _ -> None))
      | _ -> None))
| _ -> None

(** val nodes_of_sx : sx list -> node list option **)

let rec nodes_of_sx = function
| [] -> Some []
| a :: t ->
  (match node_of_sx a with
   | Some n0 ->
     (match nodes_of_sx t with
      | Some ns -> Some (n0 :: ns)
      | None -> None)
   | None -> None)

(** val level_info : imm res -> nat -> sx **)

let level_info ri l =
  SL
    ((sx_res (fun x -> SBytes x) (bind ri (fun c -> imm_hash c l))) :: (
    (sx_res (fun x -> SN x) (bind ri (fun c -> imm_depth c l))) :: []))

(** val run_hashes : sx -> sx **)

let run_hashes = function
| SL l ->
  (match l with
   | [] ->
     sx_err (String ((Ascii (false, false, false, true, false, true, true,
       false)), (String ((Ascii (true, false, false, false, false, true,
       true, false)), (String ((Ascii (true, true, false, false, true, true,
       true, false)), (String ((Ascii (false, false, false, true, false,
       true, true, false)), (String ((Ascii (true, false, true, false, false,
       true, true, false)), (String ((Ascii (true, true, false, false, true,
       true, true, false)), EmptyString))))))))))))
   | s :: l0 ->
     (match s with
      | SL dag ->
        (match l0 with
         | [] ->
           sx_err (String ((Ascii (false, false, false, true, false, true,
             true, false)), (String ((Ascii (true, false, false, false,
             false, true, true, false)), (String ((Ascii (true, true, false,
             false, true, true, true, false)), (String ((Ascii (false, false,
             false, true, false, true, true, false)), (String ((Ascii (true,
             false, true, false, false, true, true, false)), (String ((Ascii
             (true, true, false, false, true, true, true, false)),
             EmptyString))))))))))))
         | s0 :: l1 ->
           (match s0 with
            | SN root ->
              (match l1 with
               | [] ->
                 (match nodes_of_sx dag with
                  | Some cells ->
                    let imms = eval_dag sha256 O cells in
                    (match nth_error imms (N.to_nat root) with
                     | Some ri ->
                       (match nth_error cells (N.to_nat root) with
                        | Some nd ->
                          SL
                            ((level_info ri O) :: ((level_info ri (S O)) :: (
                            (level_info ri (S (S O))) :: ((level_info ri (S
                                                            (S (S O)))) :: (
                            (sx_nat (mask_level nd.n_mask)) :: [])))))
                        | None ->
                          sx_err (String ((Ascii (false, true, false, false,
                            true, true, true, false)), (String ((Ascii (true,
                            true, true, true, false, true, true, false)),
                            (String ((Ascii (true, true, true, true, false,
                            true, true, false)), (String ((Ascii (false,
                            false, true, false, true, true, true, false)),
                            EmptyString)))))))))
                     | None ->
                       sx_err (String ((Ascii (false, true, false, false,
                         true, true, true, false)), (String ((Ascii (true,
                         true, true, true, false, true, true, false)),
                         (String ((Ascii (true, true, true, true, false,
                         true, true, false)), (String ((Ascii (false, false,
                         true, false, true, true, true, false)),
                         EmptyString)))))))))
                  | None ->
                    sx_err (String ((Ascii (false, false, true, false, false,
                      true, true, false)), (String ((Ascii (true, false,
                      false, false, false, true, true, false)), (String
                      ((Ascii (true, true, true, false, false, true, true,
                      false)), EmptyString)))))))
               | _ :: _ ->
                 sx_err (String ((Ascii (false, false, false, true, false,
                   true, true, false)), (String ((Ascii (true, false, false,
                   false, false, true, true, false)), (String ((Ascii (true,
                   true, false, false, true, true, true, false)), (String
                   ((Ascii (false, false, false, true, false, true, true,
                   false)), (String ((Ascii (true, false, true, false, false,
                   true, true, false)), (String ((Ascii (true, true, false,
                   false, true, true, true, false)), EmptyString)))))))))))))
            | _ ->
              sx_err (String ((Ascii (false, false, false, true, false, true,
                true, false)), (String ((Ascii (true, false, false, false,
                false, true, true, false)), (String ((Ascii (true, true,
                false, false, true, true, true, false)), (String ((Ascii
                (false, false, false, true, false, true, true, false)),
                (String ((Ascii (true, false, true, false, false, true, true,
                false)), (String ((Ascii (true, true, false, false, true,
                true, true, false)), EmptyString))))))))))))))
      | _ ->
        sx_err (String ((Ascii (false, false, false, true, false, true, true,
          false)), (String ((Ascii (true, false, false, false, false, true,
          true, false)), (String ((Ascii (true, true, false, false, true,
          true, true, false)), (String ((Ascii (false, false, false, true,
          false, true, true, false)), (String ((Ascii (true, false, true,
          false, false, true, true, false)), (String ((Ascii (true, true,
          false, false, true, true, true, false)), EmptyString))))))))))))))
| _ ->
  sx_err (String ((Ascii (false, false, false, true, false, true, true,
    false)), (String ((Ascii (true, false, false, false, false, true, true,
    false)), (String ((Ascii (true, true, false, false, true, true, true,
    false)), (String ((Ascii (false, false, false, true, false, true, true,
    false)), (String ((Ascii (true, false, true, false, false, true, true,
    false)), (String ((Ascii (true, true, false, false, true, true, true,
    false)), EmptyString))))))))))))

type cinfo = { ci_node : nat; ci_cache : bool; ci_wt : nat;
               ci_refs : nat list; ci_hashcount : nat; ci_new : z;
               ci_root : bool }

(** val set_ci : cinfo list -> nat -> cinfo -> cinfo list **)

let set_ci l i c =
  set_nth i c l

(** val get_ci : cinfo list -> nat -> cinfo **)

let get_ci l i =
  nth i l { ci_node = O; ci_cache = false; ci_wt = O; ci_refs = [];
    ci_hashcount = O; ci_new = (Zneg XH); ci_root = false }

(** val with_new : cinfo -> z -> cinfo **)

let with_new c z0 =
  { ci_node = c.ci_node; ci_cache = c.ci_cache; ci_wt = c.ci_wt; ci_refs =
    c.ci_refs; ci_hashcount = c.ci_hashcount; ci_new = z0; ci_root =
    c.ci_root }

(** val with_wt : cinfo -> nat -> cinfo **)

let with_wt c w =
  { ci_node = c.ci_node; ci_cache = c.ci_cache; ci_wt = w; ci_refs =
    c.ci_refs; ci_hashcount = c.ci_hashcount; ci_new = c.ci_new; ci_root =
    c.ci_root }

(** val with_cache : cinfo -> cinfo **)

let with_cache c =
  { ci_node = c.ci_node; ci_cache = true; ci_wt = c.ci_wt; ci_refs =
    c.ci_refs; ci_hashcount = c.ci_hashcount; ci_new = c.ci_new; ci_root =
    c.ci_root }

(** val with_refs : cinfo -> nat list -> cinfo **)

let with_refs c r =
  { ci_node = c.ci_node; ci_cache = c.ci_cache; ci_wt = c.ci_wt; ci_refs = r;
    ci_hashcount = c.ci_hashcount; ci_new = c.ci_new; ci_root = c.ci_root }

(** val with_root : cinfo -> cinfo **)

let with_root c =
  { ci_node = c.ci_node; ci_cache = c.ci_cache; ci_wt = c.ci_wt; ci_refs =
    c.ci_refs; ci_hashcount = c.ci_hashcount; ci_new = c.ci_new; ci_root =
    true }

(** val eSer : n **)

let eSer =
  Npos (XO (XI (XI (XI XH))))

(** val find_hash : bytes -> (bytes * nat) list -> nat option **)

let rec find_hash h = function
| [] -> None
| p :: t ->
  let (k0, v) = p in if bytes_eqb k0 h then Some v else find_hash h t

(** val import_cell :
    node list -> bytes res list -> nat -> cinfo list -> (bytes * nat) list ->
    nat -> nat -> ((cinfo list * (bytes * nat) list) * nat) res **)

let rec import_cell dag hashes fuel st m cell2 depth =
  match fuel with
  | O -> Err eFuel
  | S f ->
    if Nat.ltb (S (S (S (S (S (S (S (S (S (S (S (S (S (S (S (S (S (S (S (S (S
         (S (S (S (S (S (S (S (S (S (S (S (S (S (S (S (S (S (S (S (S (S (S (S
         (S (S (S (S (S (S (S (S (S (S (S (S (S (S (S (S (S (S (S (S (S (S (S
         (S (S (S (S (S (S (S (S (S (S (S (S (S (S (S (S (S (S (S (S (S (S (S
         (S (S (S (S (S (S (S (S (S (S (S (S (S (S (S (S (S (S (S (S (S (S (S
         (S (S (S (S (S (S (S (S (S (S (S (S (S (S (S (S (S (S (S (S (S (S (S
         (S (S (S (S (S (S (S (S (S (S (S (S (S (S (S (S (S (S (S (S (S (S (S
         (S (S (S (S (S (S (S (S (S (S (S (S (S (S (S (S (S (S (S (S (S (S (S
         (S (S (S (S (S (S (S (S (S (S (S (S (S (S (S (S (S (S (S (S (S (S (S
         (S (S (S (S (S (S (S (S (S (S (S (S (S (S (S (S (S (S (S (S (S (S (S
         (S (S (S (S (S (S (S (S (S (S (S (S (S (S (S (S (S (S (S (S (S (S (S
         (S (S (S (S (S (S (S (S (S (S (S (S (S (S (S (S (S (S (S (S (S (S (S
         (S (S (S (S (S (S (S (S (S (S (S (S (S (S (S (S (S (S (S (S (S (S (S
         (S (S (S (S (S (S (S (S (S (S (S (S (S (S (S (S (S (S (S (S (S (S (S
         (S (S (S (S (S (S (S (S (S (S (S (S (S (S (S (S (S (S (S (S (S (S (S
         (S (S (S (S (S (S (S (S (S (S (S (S (S (S (S (S (S (S (S (S (S (S (S
         (S (S (S (S (S (S (S (S (S (S (S (S (S (S (S (S (S (S (S (S (S (S (S
         (S (S (S (S (S (S (S (S (S (S (S (S (S (S (S (S (S (S (S (S (S (S (S
         (S (S (S (S (S (S (S (S (S (S (S (S (S (S (S (S (S (S (S (S (S (S (S
         (S (S (S (S (S (S (S (S (S (S (S (S (S (S (S (S (S (S (S (S (S (S (S
         (S (S (S (S (S (S (S (S (S (S (S (S (S (S (S (S (S (S (S (S (S (S (S
         (S (S (S (S (S (S (S (S (S (S (S (S (S (S (S (S (S (S (S (S (S (S (S
         (S (S (S (S (S (S (S (S (S (S (S (S (S (S (S (S (S (S (S (S (S (S (S
         (S (S (S (S (S (S (S (S (S (S (S (S (S (S (S (S (S (S (S (S (S (S (S
         (S (S (S (S (S (S (S (S (S (S (S (S (S (S (S (S (S (S (S (S (S (S (S
         (S (S (S (S (S (S (S (S (S (S (S (S (S (S (S (S (S (S (S (S (S (S (S
         (S (S (S (S (S (S (S (S (S (S (S (S (S (S (S (S (S (S (S (S (S (S (S
         (S (S (S (S (S (S (S (S (S (S (S (S (S (S (S (S (S (S (S (S (S (S (S
         (S (S (S (S (S (S (S (S (S (S (S (S (S (S (S (S (S (S (S (S (S (S (S
         (S (S (S (S (S (S (S (S (S (S (S (S (S (S (S (S (S (S (S (S (S (S (S
         (S (S (S (S (S (S (S (S (S (S (S (S (S (S (S (S (S (S (S (S (S (S (S
         (S (S (S (S (S (S (S (S (S (S (S (S (S (S (S (S (S (S (S (S (S (S (S
         (S (S (S (S (S (S (S (S (S (S (S (S (S (S (S (S (S (S (S (S (S (S (S
         (S (S (S (S (S (S (S (S (S (S (S (S (S (S (S (S (S (S (S (S (S (S (S
         (S (S (S (S (S (S (S (S (S (S (S (S (S (S (S (S (S (S (S (S (S (S (S
         (S (S (S (S (S (S (S (S (S (S (S (S (S (S (S (S (S (S (S (S (S (S (S
         (S (S (S (S (S (S (S (S (S (S (S (S (S (S (S (S (S (S (S (S (S (S (S
         (S (S (S (S (S (S (S (S (S (S (S (S (S (S (S (S (S (S (S (S (S (S (S
         (S (S (S (S (S (S (S (S (S (S (S (S (S (S (S (S (S (S (S (S (S (S (S
         (S (S (S (S (S (S (S (S (S (S (S (S (S (S (S (S (S (S (S (S (S (S (S
         (S (S (S (S (S (S (S (S (S (S (S (S (S (S (S (S (S (S (S (S (S (S (S
         (S (S (S (S (S (S (S (S (S (S (S (S (S (S (S (S (S (S (S (S (S (S (S
         (S (S (S (S (S (S (S (S (S (S (S (S (S (S (S (S (S (S (S (S (S (S (S
         (S (S (S (S (S (S (S (S (S (S (S (S (S (S (S (S (S (S (S (S (S (S (S
         (S (S (S (S (S (S (S (S (S (S (S (S (S (S
         O))))))))))))))))))))))))))))))))))))))))))))))))))))))))))))))))))))))))))))))))))))))))))))))))))))))))))))))))))))))))))))))))))))))))))))))))))))))))))))))))))))))))))))))))))))))))))))))))))))))))))))))))))))))))))))))))))))))))))))))))))))))))))))))))))))))))))))))))))))))))))))))))))))))))))))))))))))))))))))))))))))))))))))))))))))))))))))))))))))))))))))))))))))))))))))))))))))))))))))))))))))))))))))))))))))))))))))))))))))))))))))))))))))))))))))))))))))))))))))))))))))))))))))))))))))))))))))))))))))))))))))))))))))))))))))))))))))))))))))))))))))))))))))))))))))))))))))))))))))))))))))))))))))))))))))))))))))))))))))))))))))))))))))))))))))))))))))))))))))))))))))))))))))))))))))))))))))))))))))))))))))))))))))))))))))))))))))))))))))))))))))))))))))))))))))))))))))))))))))))))))))))))))))))))))))))))))))))))))))))))))))))))))))))))))))))))))))))))))))))))))))))))))))))))))))))))))))))))))))))))))))))))))))))))))))))))))))))))))))))))))))))))))))))))))))))))))))))))))))))))))))))))))))))))))))))))
         depth
    then Err eDepth
    else (match nth_error hashes cell2 with
          | Some rh ->
            (match nth_error dag cell2 with
             | Some nd ->
               bind rh (fun h ->
                 match find_hash h m with
                 | Some pos ->
                   Ok (((set_ci st pos (with_cache (get_ci st pos))), m), pos)
                 | None ->
                   let refs_loop =
                     let rec refs_loop rs st0 m0 acc sum =
                       match rs with
                       | [] -> Ok (((st0, m0), (rev acc)), sum)
                       | r :: t ->
                         bind (import_cell dag hashes f st0 m0 r (S depth))
                           (fun x ->
                           let (p, pos) = x in
                           let (st', m') = p in
                           refs_loop t st' m' (pos :: acc)
                             (add sum (get_ci st' pos).ci_wt))
                     in refs_loop
                   in
                   bind (refs_loop nd.n_refs st m [] (S O)) (fun y ->
                     let (p, sum) = y in
                     let (p0, refs) = p in
                     let (st', m') = p0 in
                     let wt =
                       if Nat.ltb (S (S (S (S (S (S (S (S (S (S (S (S (S (S
                            (S (S (S (S (S (S (S (S (S (S (S (S (S (S (S (S
                            (S (S (S (S (S (S (S (S (S (S (S (S (S (S (S (S
                            (S (S (S (S (S (S (S (S (S (S (S (S (S (S (S (S
                            (S (S (S (S (S (S (S (S (S (S (S (S (S (S (S (S
                            (S (S (S (S (S (S (S (S (S (S (S (S (S (S (S (S
                            (S (S (S (S (S (S (S (S (S (S (S (S (S (S (S (S
                            (S (S (S (S (S (S (S (S (S (S (S (S (S (S (S (S
                            (S (S (S (S (S (S (S (S (S (S (S (S (S (S (S (S
                            (S (S (S (S (S (S (S (S (S (S (S (S (S (S (S (S
                            (S (S (S (S (S (S (S (S (S (S (S (S (S (S (S (S
                            (S (S (S (S (S (S (S (S (S (S (S (S (S (S (S (S
                            (S (S (S (S (S (S (S (S (S (S (S (S (S (S (S (S
                            (S (S (S (S (S (S (S (S (S (S (S (S (S (S (S (S
                            (S (S (S (S (S (S (S (S (S (S (S (S (S (S (S (S
                            (S (S (S (S (S (S (S (S (S (S (S (S (S (S (S (S
                            (S
                            O)))))))))))))))))))))))))))))))))))))))))))))))))))))))))))))))))))))))))))))))))))))))))))))))))))))))))))))))))))))))))))))))))))))))))))))))))))))))))))))))))))))))))))))))))))))))))))))))))))))))))))))))))))))))))))))))))))))))))))))))))))))))))))))))
                            sum
                       then S (S (S (S (S (S (S (S (S (S (S (S (S (S (S (S (S
                              (S (S (S (S (S (S (S (S (S (S (S (S (S (S (S (S
                              (S (S (S (S (S (S (S (S (S (S (S (S (S (S (S (S
                              (S (S (S (S (S (S (S (S (S (S (S (S (S (S (S (S
                              (S (S (S (S (S (S (S (S (S (S (S (S (S (S (S (S
                              (S (S (S (S (S (S (S (S (S (S (S (S (S (S (S (S
                              (S (S (S (S (S (S (S (S (S (S (S (S (S (S (S (S
                              (S (S (S (S (S (S (S (S (S (S (S (S (S (S (S (S
                              (S (S (S (S (S (S (S (S (S (S (S (S (S (S (S (S
                              (S (S (S (S (S (S (S (S (S (S (S (S (S (S (S (S
                              (S (S (S (S (S (S (S (S (S (S (S (S (S (S (S (S
                              (S (S (S (S (S (S (S (S (S (S (S (S (S (S (S (S
                              (S (S (S (S (S (S (S (S (S (S (S (S (S (S (S (S
                              (S (S (S (S (S (S (S (S (S (S (S (S (S (S (S (S
                              (S (S (S (S (S (S (S (S (S (S (S (S (S (S (S (S
                              (S (S (S (S (S (S (S (S (S (S (S (S (S (S
                              O))))))))))))))))))))))))))))))))))))))))))))))))))))))))))))))))))))))))))))))))))))))))))))))))))))))))))))))))))))))))))))))))))))))))))))))))))))))))))))))))))))))))))))))))))))))))))))))))))))))))))))))))))))))))))))))))))))))))))))))))))))))))))))))
                       else sum
                     in
                     let pos = length st' in
                     Ok
                     (((app st' ({ ci_node = cell2; ci_cache = false; ci_wt =
                         wt; ci_refs = refs; ci_hashcount = (S
                         (mask_popcount nd.n_mask)); ci_new = (Zneg XH);
                         ci_root = false } :: [])), ((h, pos) :: m')), pos)))
             | None -> Panic pNil)
          | None -> Panic pNil)

(** val maxCellWhs : nat **)

let maxCellWhs =
  S (S (S (S (S (S (S (S (S (S (S (S (S (S (S (S (S (S (S (S (S (S (S (S (S
    (S (S (S (S (S (S (S (S (S (S (S (S (S (S (S (S (S (S (S (S (S (S (S (S
    (S (S (S (S (S (S (S (S (S (S (S (S (S (S (S
    O)))))))))))))))))))))))))))))))))))))))))))))))))))))))))))))))

(** val pass1_cell : cinfo list -> nat -> cinfo list **)

let pass1_cell st i =
  let dci = get_ci st i in
  let k0 = length dci.ci_refs in
  let step2 = fun acc jr ->
    let (p, mask0) = acc in
    let (c, sum) = p in
    let (j, r) = jr in
    let wt = (get_ci st r).ci_wt in
    let limit = Nat.div (add (sub maxCellWhs (S O)) j) k0 in
    if Nat.leb wt limit
    then (((sub c (S O)), (sub sum wt)), (app mask0 (true :: [])))
    else ((c, sum), (app mask0 (false :: [])))
  in
  let idx = combine (seq O k0) dci.ci_refs in
  let (p, mask0) = fold_left step2 idx ((k0, (sub maxCellWhs (S O))), []) in
  let (c, sum) = p in
  if Nat.ltb O c
  then let step3 = fun acc jr ->
         let (st0, sum0) = acc in
         let (j, r) = jr in
         if nth j mask0 false
         then (st0, sum0)
         else let sum' = S sum0 in
              let limit = Nat.div sum' c in
              let dcj = get_ci st0 r in
              if Nat.ltb limit dcj.ci_wt
              then ((set_ci st0 r (with_wt dcj limit)), sum')
              else (st0, sum')
       in
       fst (fold_left step3 idx (st, sum))
  else st

(** val pass2_cell : cinfo list -> nat -> cinfo list **)

let pass2_cell st i =
  let dci = get_ci st i in
  let sum = fold_left (fun s r -> add s (get_ci st r).ci_wt) dci.ci_refs (S O)
  in
  if Nat.leb sum dci.ci_wt
  then set_ci st i (with_wt dci sum)
  else set_ci st i (with_wt dci O)

type force =
| Previsit
| Visit
| Allocate

(** val revisit :
    nat -> cinfo list -> nat list -> nat -> force -> ((cinfo list * nat
    list) * z) res **)

let rec revisit fuel st nl idx f =
  match fuel with
  | O -> Err eFuel
  | S fu ->
    let dci = get_ci st idx in
    if Z.leb Z0 dci.ci_new
    then Ok ((st, nl), dci.ci_new)
    else (match f with
          | Previsit ->
            if negb (Z.eqb dci.ci_new (Zneg XH))
            then Ok ((st, nl), dci.ci_new)
            else let loop =
                   let rec loop rs st0 nl0 =
                     match rs with
                     | [] -> Ok (st0, nl0)
                     | r :: t ->
                       let special = Nat.eqb (get_ci st0 r).ci_wt O in
                       bind
                         (revisit fu st0 nl0 r
                           (if special then Visit else Previsit)) (fun x ->
                         let (p, _) = x in
                         let (st', nl') = p in loop t st' nl')
                   in loop
                 in
                 bind (loop (rev dci.ci_refs) st nl) (fun y ->
                   let (st', nl') = y in
                   Ok
                   (((set_ci st' idx
                       (with_new (get_ci st' idx) (Zneg (XO XH)))), nl'),
                   (Zneg (XO XH))))
          | Visit ->
            if Z.eqb dci.ci_new (Zneg (XI XH))
            then Ok ((st, nl), (Zneg (XI XH)))
            else bind
                   (if Nat.eqb dci.ci_wt O
                    then bind (revisit fu st nl idx Previsit) (fun x ->
                           let (p, _) = x in let (s, n0) = p in Ok (s, n0))
                    else Ok (st, nl)) (fun x0 ->
                   let (st0, nl0) = x0 in
                   let vloop =
                     let rec vloop rs st1 nl1 =
                       match rs with
                       | [] -> Ok (st1, nl1)
                       | r :: t ->
                         bind (revisit fu st1 nl1 r Visit) (fun x ->
                           let (p, _) = x in
                           let (st', nl') = p in vloop t st' nl')
                     in vloop
                   in
                   bind (vloop (rev (get_ci st0 idx).ci_refs) st0 nl0)
                     (fun y ->
                     let (st1, nl1) = y in
                     let aloop =
                       let rec aloop js st2 nl2 =
                         match js with
                         | [] -> Ok (st2, nl2)
                         | j :: t ->
                           let r = nth j (get_ci st2 idx).ci_refs O in
                           bind (revisit fu st2 nl2 r Allocate) (fun x ->
                             let (p, k0) = x in
                             let (st', nl') = p in
                             let me = get_ci st' idx in
                             aloop t
                               (set_ci st' idx
                                 (with_refs me
                                   (set_nth j (Z.to_nat k0) me.ci_refs))) nl')
                       in aloop
                     in
                     bind
                       (aloop (rev (seq O (length (get_ci st1 idx).ci_refs)))
                         st1 nl1) (fun z0 ->
                       let (st2, nl2) = z0 in
                       Ok
                       (((set_ci st2 idx
                           (with_new (get_ci st2 idx) (Zneg (XI XH)))), nl2),
                       (Zneg (XI XH))))))
          | Allocate ->
            let k0 = Z.of_nat (length nl) in
            Ok (((set_ci st idx (with_new dci k0)), (app nl (idx :: []))), k0))

(** val for_roots : ('a1 -> nat -> 'a1 res) -> 'a1 -> nat list -> 'a1 res **)

let rec for_roots f s = function
| [] -> Ok s
| r :: t -> bind (f s r) (fun s' -> for_roots f s' t)

(** val reorder :
    cinfo list -> nat list -> ((cinfo list * nat list) * nat list) res **)

let reorder st roots =
  let n0 = length st in
  let st1 = fold_left pass1_cell (rev (seq O n0)) st in
  let st2 = fold_left pass2_cell (seq O n0) st1 in
  let st3 =
    fold_left (fun s r -> set_ci s r (with_root (get_ci s r))) roots st2
  in
  if Nat.eqb n0 O
  then Ok ((st3, []), roots)
  else let fuel =
         add (mul (S (S (S (S O)))) n0) (S (S (S (S (S (S (S (S O))))))))
       in
       bind
         (for_roots (fun s r ->
           bind (revisit fuel (fst s) (snd s) r Previsit) (fun x ->
             let (p, _) = x in
             let (s1, n1) = p in
             bind (revisit fuel s1 n1 r Visit) (fun y ->
               let (p0, _) = y in let (s2, n2) = p0 in Ok (s2, n2)))) (st3,
           []) roots) (fun a ->
         bind
           (for_roots (fun s r ->
             bind (revisit fuel (fst s) (snd s) r Allocate) (fun x ->
               let (p, _) = x in let (s1, n1) = p in Ok (s1, n1))) a roots)
           (fun b ->
           let (stf, nl) = b in
           Ok ((stf, nl),
           (map (fun r -> Z.to_nat (get_ci stf r).ci_new) roots))))

(** val import_roots :
    node list -> bytes res list -> nat list -> ((cinfo list * nat list) * nat
    list) res **)

let import_roots dag hashes roots =
  bind
    (for_roots (fun s r ->
      let (p, acc) = s in
      let (st, m) = p in
      bind (import_cell dag hashes (S (length dag)) st m r O) (fun x ->
        let (p0, pos) = x in
        let (st', m') = p0 in Ok ((st', m'), (app acc (pos :: []))))) (([],
      []), []) roots) (fun a ->
    let (p, rootpos) = a in let (st, _) = p in reorder st rootpos)

(** val be_n : nat -> n -> bytes **)

let be_n n0 v =
  rev
    (map (fun i ->
      N.coq_land (N.shiftr v (N.mul (Npos (XO (XO (XO XH)))) (N.of_nat i)))
        (Npos (XI (XI (XI (XI (XI (XI (XI XH))))))))) (seq O n0))

(** val byte_len : n -> nat **)

let byte_len v =
  Nat.max
    (Nat.div (add (N.to_nat (N.size v)) (S (S (S (S (S (S (S O)))))))) (S (S
      (S (S (S (S (S (S O))))))))) (S O)

(** val serialize :
    node list -> bytes res list -> nat list -> bool -> bool -> bool -> bytes
    res **)

let serialize dag hashes roots idx hasCrc cacheBits =
  bind (import_roots dag hashes roots) (fun ir ->
    let (p, rootidx) = ir in
    let (st, nl) = p in
    let infos = map (get_ci st) nl in
    let cellCount = length infos in
    let refSize = byte_len (N.of_nat cellCount) in
    let repr_of = fun ci ->
      match nth_error dag ci.ci_node with
      | Some nd ->
        app
          (repr_no_refs (length ci.ci_refs) nd.n_special nd.n_mask nd.n_bits)
          (flat_map (fun r ->
            be_n refSize (N.of_nat (sub (sub cellCount (S O)) r))) ci.ci_refs)
      | None -> []
    in
    let reps = map repr_of infos in
    let step2 = fun acc p0 ->
      let (off, offs) = acc in
      let (ci, rep) = p0 in
      let off' = N.add off (N.of_nat (length rep)) in
      let fixed =
        if cacheBits
        then N.add (N.mul (Npos (XO XH)) off')
               (if ci.ci_cache then Npos XH else N0)
        else off'
      in
      (off', (fixed :: offs))
    in
    let (total, offsets) = fold_left step2 (rev (combine infos reps)) (N0, [])
    in
    let offSize = byte_len total in
    let flags =
      N.add
        (N.add
          (if idx then Npos (XO (XO (XO (XO (XO (XO (XO XH))))))) else N0)
          (if hasCrc then Npos (XO (XO (XO (XO (XO (XO XH)))))) else N0))
        (if cacheBits then Npos (XO (XO (XO (XO (XO XH))))) else N0)
    in
    let sizeField = N.of_nat (Nat.modulo refSize (S (S (S (S O))))) in
    let header0 =
      app magic_reach
        (app ((N.add flags sizeField) :: [])
          (app
            ((N.of_nat
               (Nat.modulo offSize (S (S (S (S (S (S (S (S (S (S (S (S (S (S
                 (S (S (S (S (S (S (S (S (S (S (S (S (S (S (S (S (S (S (S (S
                 (S (S (S (S (S (S (S (S (S (S (S (S (S (S (S (S (S (S (S (S
                 (S (S (S (S (S (S (S (S (S (S (S (S (S (S (S (S (S (S (S (S
                 (S (S (S (S (S (S (S (S (S (S (S (S (S (S (S (S (S (S (S (S
                 (S (S (S (S (S (S (S (S (S (S (S (S (S (S (S (S (S (S (S (S
                 (S (S (S (S (S (S (S (S (S (S (S (S (S (S (S (S (S (S (S (S
                 (S (S (S (S (S (S (S (S (S (S (S (S (S (S (S (S (S (S (S (S
                 (S (S (S (S (S (S (S (S (S (S (S (S (S (S (S (S (S (S (S (S
                 (S (S (S (S (S (S (S (S (S (S (S (S (S (S (S (S (S (S (S (S
                 (S (S (S (S (S (S (S (S (S (S (S (S (S (S (S (S (S (S (S (S
                 (S (S (S (S (S (S (S (S (S (S (S (S (S (S (S (S (S (S (S (S
                 (S (S (S (S (S (S (S (S (S (S (S (S (S (S (S (S (S (S (S (S
                 (S (S
                 O)))))))))))))))))))))))))))))))))))))))))))))))))))))))))))))))))))))))))))))))))))))))))))))))))))))))))))))))))))))))))))))))))))))))))))))))))))))))))))))))))))))))))))))))))))))))))))))))))))))))))))))))))))))))))))))))))))))))))))))))))))))))))))))))))) :: [])
            (app (be_n refSize (N.of_nat cellCount))
              (app (be_n refSize (N.of_nat (length rootidx)))
                (app (be_n refSize N0)
                  (app (be_n offSize total)
                    (flat_map (fun r ->
                      be_n refSize (N.of_nat (sub (sub cellCount (S O)) r)))
                      rootidx)))))))
    in
    let index = if idx then flat_map (be_n offSize) (rev offsets) else [] in
    let body = app header0 (app index (concat (rev reps))) in
    if N.ltb
         (N.of_nat
           (mul
             (add
               (add (S (S (S (S (S (S (S (S (S (S (S (S (S (S (S (S (S (S (S
                 (S (S (S (S (S (S (S (S (S (S (S (S (S (S (S (S (S (S (S (S
                 (S (S (S (S (S (S (S (S (S (S (S (S (S (S (S (S (S (S (S (S
                 (S (S (S (S (S (S (S (S (S (S (S (S (S (S (S (S (S (S (S (S
                 (S (S (S (S (S (S (S (S (S (S (S (S (S (S (S (S (S (S (S (S
                 (S (S (S (S (S (S (S (S (S (S (S (S (S (S (S (S (S (S (S (S
                 (S (S (S (S (S (S (S (S (S (S (S (S (S (S (S (S (S (S (S (S
                 (S (S (S (S (S (S (S (S (S (S (S (S (S (S (S (S (S (S (S (S
                 (S (S (S (S (S (S (S (S (S (S (S (S (S (S (S (S (S (S (S (S
                 (S (S (S (S (S (S (S (S (S (S (S (S (S (S (S (S (S (S (S (S
                 (S (S (S (S (S (S (S (S (S (S (S (S (S (S (S (S (S (S (S (S
                 (S (S (S (S (S (S (S (S (S (S (S (S (S (S (S (S (S (S (S (S
                 (S (S (S (S (S (S (S (S (S (S (S (S (S (S (S (S (S (S (S (S
                 (S (S (S (S (S (S (S (S (S (S (S (S (S (S (S (S (S (S (S (S
                 (S (S (S (S (S (S (S (S (S (S (S (S (S (S (S (S (S (S (S (S
                 (S (S (S (S (S (S (S (S (S (S (S (S (S (S (S (S (S (S (S (S
                 (S (S (S (S (S (S (S (S (S (S (S (S (S (S (S (S (S (S (S (S
                 (S (S (S (S (S (S (S (S (S (S (S (S (S (S (S (S (S (S (S (S
                 (S (S (S (S (S (S (S (S (S (S (S (S (S (S (S (S (S (S (S (S
                 (S (S (S (S (S (S (S (S (S (S (S (S (S (S (S (S (S (S (S (S
                 (S (S (S (S (S (S (S (S (S (S (S (S (S (S (S (S (S (S (S (S
                 (S (S (S (S (S (S (S (S (S (S (S (S (S (S (S (S (S (S (S (S
                 (S (S (S (S (S (S (S (S (S (S (S (S (S (S (S (S (S (S (S (S
                 (S (S (S (S (S (S (S (S (S (S (S (S (S (S (S (S (S (S (S (S
                 (S (S (S (S (S (S (S (S (S (S (S (S (S (S (S (S (S (S (S (S
                 (S (S (S (S (S (S (S (S (S (S (S (S (S (S (S (S (S (S (S (S
                 (S (S (S (S (S (S (S (S (S (S (S (S (S (S (S (S (S (S (S (S
                 (S (S (S (S (S (S (S (S (S (S (S (S (S (S (S (S (S (S (S (S
                 (S (S (S (S (S (S (S (S (S (S (S (S (S (S (S (S (S (S (S (S
                 (S (S (S (S (S (S (S (S (S (S (S (S (S (S (S (S (S (S (S (S
                 (S (S (S (S (S (S (S (S (S (S (S (S (S (S (S (S (S (S (S (S
                 (S (S (S (S (S (S (S (S (S (S (S (S (S (S (S (S (S (S (S (S
                 (S (S (S (S (S (S (S (S (S (S (S (S (S (S (S (S (S (S (S (S
                 (S (S (S (S (S (S (S (S (S (S (S (S (S (S (S (S (S (S (S (S
                 (S (S (S (S (S (S (S (S (S (S (S (S (S (S (S (S (S (S (S (S
                 (S (S (S (S (S (S (S (S (S (S (S (S (S (S (S (S (S (S (S (S
                 (S (S (S (S (S (S (S (S (S (S (S (S (S (S (S (S (S (S (S (S
                 (S (S (S (S (S (S (S (S (S (S (S (S (S (S (S (S (S (S (S (S
                 (S (S (S (S (S (S (S (S (S (S (S (S (S (S (S (S (S (S (S (S
                 (S (S (S (S (S (S (S (S (S (S (S (S (S (S (S (S (S (S (S (S
                 (S (S (S (S (S (S (S (S (S (S (S (S (S (S (S (S (S (S (S (S
                 (S (S (S (S (S (S (S (S (S (S (S (S (S (S (S (S (S (S (S (S
                 (S (S (S (S (S (S (S (S (S (S (S (S (S (S (S (S (S (S (S (S
                 (S (S (S (S (S (S (S (S (S (S (S (S (S (S (S (S (S (S (S (S
                 (S (S (S (S (S (S (S (S (S (S (S (S (S (S (S (S (S (S (S (S
                 (S (S (S (S (S (S (S (S (S (S (S (S (S (S (S (S (S (S (S (S
                 (S (S (S (S (S (S (S (S (S (S (S (S (S (S (S (S (S (S (S (S
                 (S (S (S (S (S (S (S (S (S (S (S (S (S (S (S (S (S (S (S (S
                 (S (S (S (S (S (S (S (S (S (S (S (S (S (S (S (S (S (S (S (S
                 (S (S (S (S (S (S (S (S (S (S (S (S (S (S (S (S (S (S (S (S
                 (S (S (S (S (S (S (S (S (S (S (S (S (S (S (S (S (S (S (S (S
                 (S (S (S (S
                 O)))))))))))))))))))))))))))))))))))))))))))))))))))))))))))))))))))))))))))))))))))))))))))))))))))))))))))))))))))))))))))))))))))))))))))))))))))))))))))))))))))))))))))))))))))))))))))))))))))))))))))))))))))))))))))))))))))))))))))))))))))))))))))))))))))))))))))))))))))))))))))))))))))))))))))))))))))))))))))))))))))))))))))))))))))))))))))))))))))))))))))))))))))))))))))))))))))))))))))))))))))))))))))))))))))))))))))))))))))))))))))))))))))))))))))))))))))))))))))))))))))))))))))))))))))))))))))))))))))))))))))))))))))))))))))))))))))))))))))))))))))))))))))))))))))))))))))))))))))))))))))))))))))))))))))))))))))))))))))))))))))))))))))))))))))))))))))))))))))))))))))))))))))))))))))))))))))))))))))))))))))))))))))))))))))))))))))))))))))))))))))))))))))))))))))))))))))))))))))))))))))))))))))))))))))))))))))))))))))))))))))))))))))))))))))))))))))))))))))))))))))))))))))))))))))))))))))))))))))))))))))))))))))))))))))))))))))))))))))))))))))))))))))))))))))))))))))))))))))))))))))))))))))))))))))))))
                 (mul (S (S (S (S (S (S (S (S (S (S (S (S (S (S (S (S (S (S
                   (S (S (S (S (S (S (S (S (S (S (S (S (S (S
                   O)))))))))))))))))))))))))))))))) (S (S (S (S O))))))
               (mul (S (S (S (S (S (S (S (S (S (S (S (S (S (S (S (S (S (S (S
                 (S (S (S (S (S (S (S (S (S (S (S (S (S
                 O)))))))))))))))))))))))))))))))) (S (S (S O))))) cellCount))
         (N.mul (Npos (XO (XO (XO XH)))) (N.of_nat (length body)))
    then Err eSer
    else Ok
           (if hasCrc
            then app body (rev (be_n (S (S (S (S O)))) (crc32c body)))
            else body))

(** val hashes_of : node list -> bytes res list **)

let hashes_of cells =
  map (fun ri -> bind ri cell_hash) (eval_dag sha256 O cells)

(** val reach_from : node list -> nat -> bool list -> bool list **)

let rec reach_from cells i marks =
  match cells with
  | [] -> []
  | c :: rest ->
    (match marks with
     | [] -> []
     | m :: ms ->
       let ms' =
         if m
         then fold_left (fun acc r -> set_nth (sub r (S i)) true acc)
                c.n_refs ms
         else ms
       in
       m :: (reach_from rest (S i) ms'))

(** val mem_bytes : bytes -> bytes list -> bool **)

let rec mem_bytes h = function
| [] -> false
| x :: t -> (||) (bytes_eqb x h) (mem_bytes h t)

(** val distinct : bytes list -> bytes list -> bytes list **)

let rec distinct l acc =
  match l with
  | [] -> acc
  | x :: t ->
    if mem_bytes x acc then distinct t acc else distinct t (x :: acc)

(** val all_ok : 'a1 res list -> 'a1 list option **)

let rec all_ok = function
| [] -> Some []
| r :: t ->
  (match r with
   | Ok a -> (match all_ok t with
              | Some r0 -> Some (a :: r0)
              | None -> None)
   | _ -> None)

(** val certificate : node list -> nat -> bytes -> bool **)

let certificate cells root out =
  match parse_boc out with
  | Ok p ->
    (match p.p_roots with
     | [] -> false
     | r' :: l ->
       (match l with
        | [] ->
          let hs' = hashes_of p.p_cells in
          let hs = hashes_of cells in
          (match nth_error hs' r' with
           | Some r ->
             (match r with
              | Ok h' ->
                (match nth_error hs root with
                 | Some r0 ->
                   (match r0 with
                    | Ok h ->
                      (match all_ok hs' with
                       | Some allh' ->
                         let marks =
                           reach_from (skipn root cells) root
                             (true :: (repeat false
                                        (sub (sub (length cells) root) (S O))))
                         in
                         let reach_hs =
                           flat_map (fun p0 ->
                             let (y, y0) = p0 in
                             if y
                             then (match y0 with
                                   | Ok x -> x :: []
                                   | _ -> [])
                             else []) (combine marks (skipn root hs))
                         in
                         (&&)
                           ((&&) (bytes_eqb h h')
                             (Nat.eqb (length (distinct allh' []))
                               (length allh')))
                           (Nat.eqb (length (distinct reach_hs []))
                             (length allh'))
                       | None -> false)
                    | _ -> false)
                 | None -> false)
              | _ -> false)
           | None -> false)
        | _ :: _ -> false))
  | _ -> false

(** val run_ser : sx -> sx **)

let run_ser = function
| SL l ->
  (match l with
   | [] ->
     sx_err (String ((Ascii (true, true, false, false, true, true, true,
       false)), (String ((Ascii (true, false, true, false, false, true, true,
       false)), (String ((Ascii (false, true, false, false, true, true, true,
       false)), EmptyString))))))
   | s :: l0 ->
     (match s with
      | SL dag ->
        (match l0 with
         | [] ->
           sx_err (String ((Ascii (true, true, false, false, true, true,
             true, false)), (String ((Ascii (true, false, true, false, false,
             true, true, false)), (String ((Ascii (false, true, false, false,
             true, true, true, false)), EmptyString))))))
         | s0 :: l1 ->
           (match s0 with
            | SN root ->
              (match l1 with
               | [] ->
                 sx_err (String ((Ascii (true, true, false, false, true,
                   true, true, false)), (String ((Ascii (true, false, true,
                   false, false, true, true, false)), (String ((Ascii (false,
                   true, false, false, true, true, true, false)),
                   EmptyString))))))
               | s1 :: l2 ->
                 (match s1 with
                  | SB idx ->
                    (match l2 with
                     | [] ->
                       sx_err (String ((Ascii (true, true, false, false,
                         true, true, true, false)), (String ((Ascii (true,
                         false, true, false, false, true, true, false)),
                         (String ((Ascii (false, true, false, false, true,
                         true, true, false)), EmptyString))))))
                     | s2 :: l3 ->
                       (match s2 with
                        | SB crc ->
                          (match l3 with
                           | [] ->
                             sx_err (String ((Ascii (true, true, false,
                               false, true, true, true, false)), (String
                               ((Ascii (true, false, true, false, false,
                               true, true, false)), (String ((Ascii (false,
                               true, false, false, true, true, true, false)),
                               EmptyString))))))
                           | s3 :: l4 ->
                             (match s3 with
                              | SB cache ->
                                (match l4 with
                                 | [] ->
                                   (match nodes_of_sx dag with
                                    | Some cells ->
                                      (match serialize cells
                                               (hashes_of cells)
                                               ((N.to_nat root) :: []) idx
                                               crc cache with
                                       | Ok out ->
                                         SL ((SBytes out) :: ((SB
                                           (certificate cells (N.to_nat root)
                                             out)) :: []))
                                       | Err _ ->
                                         SA (String ((Ascii (true, false,
                                           true, false, false, true, true,
                                           false)), (String ((Ascii (false,
                                           true, false, false, true, true,
                                           true, false)), (String ((Ascii
                                           (false, true, false, false, true,
                                           true, true, false)),
                                           EmptyString))))))
                                       | Panic _ ->
                                         SA (String ((Ascii (false, false,
                                           false, false, true, true, true,
                                           false)), (String ((Ascii (true,
                                           false, false, false, false, true,
                                           true, false)), (String ((Ascii
                                           (false, true, true, true, false,
                                           true, true, false)), (String
                                           ((Ascii (true, false, false, true,
                                           false, true, true, false)),
                                           (String ((Ascii (true, true,
                                           false, false, false, true, true,
                                           false)), EmptyString)))))))))))
                                    | None ->
                                      sx_err (String ((Ascii (false, false,
                                        true, false, false, true, true,
                                        false)), (String ((Ascii (true,
                                        false, false, false, false, true,
                                        true, false)), (String ((Ascii (true,
                                        true, true, false, false, true, true,
                                        false)), EmptyString)))))))
                                 | _ :: _ ->
                                   sx_err (String ((Ascii (true, true, false,
                                     false, true, true, true, false)),
                                     (String ((Ascii (true, false, true,
                                     false, false, true, true, false)),
                                     (String ((Ascii (false, true, false,
                                     false, true, true, true, false)),
                                     EmptyString)))))))
                              | _ ->
                                sx_err (String ((Ascii (true, true, false,
                                  false, true, true, true, false)), (String
                                  ((Ascii (true, false, true, false, false,
                                  true, true, false)), (String ((Ascii
                                  (false, true, false, false, true, true,
                                  true, false)), EmptyString))))))))
                        | _ ->
                          sx_err (String ((Ascii (true, true, false, false,
                            true, true, true, false)), (String ((Ascii (true,
                            false, true, false, false, true, true, false)),
                            (String ((Ascii (false, true, false, false, true,
                            true, true, false)), EmptyString))))))))
                  | _ ->
                    sx_err (String ((Ascii (true, true, false, false, true,
                      true, true, false)), (String ((Ascii (true, false,
                      true, false, false, true, true, false)), (String
                      ((Ascii (false, true, false, false, true, true, true,
                      false)), EmptyString))))))))
            | _ ->
              sx_err (String ((Ascii (true, true, false, false, true, true,
                true, false)), (String ((Ascii (true, false, true, false,
                false, true, true, false)), (String ((Ascii (false, true,
                false, false, true, true, true, false)), EmptyString))))))))
      | _ ->
        sx_err (String ((Ascii (true, true, false, false, true, true, true,
          false)), (String ((Ascii (true, false, true, false, false, true,
          true, false)), (String ((Ascii (false, true, false, false, true,
          true, true, false)), EmptyString))))))))
| _ ->
  sx_err (String ((Ascii (true, true, false, false, true, true, true,
    false)), (String ((Ascii (true, false, true, false, false, true, true,
    false)), (String ((Ascii (false, true, false, false, true, true, true,
    false)), EmptyString))))))

type cell =
| Cell of bool * n * n * bits * cell list

(** val stored_hash : n -> bits -> nat -> bytes **)

let stored_hash _ data k0 =
  firstn (S (S (S (S (S (S (S (S (S (S (S (S (S (S (S (S (S (S (S (S (S (S (S
    (S (S (S (S (S (S (S (S (S O))))))))))))))))))))))))))))))))
    (skipn
      (add (S (S O))
        (mul (S (S (S (S (S (S (S (S (S (S (S (S (S (S (S (S (S (S (S (S (S
          (S (S (S (S (S (S (S (S (S (S (S O))))))))))))))))))))))))))))))))
          k0)) (buf_bytes data))

(** val stored_depth : n -> bits -> nat -> n res **)

let stored_depth m data k0 =
  match skipn
          (add
            (add (S (S O))
              (mul (S (S (S (S (S (S (S (S (S (S (S (S (S (S (S (S (S (S (S
                (S (S (S (S (S (S (S (S (S (S (S (S (S
                O)))))))))))))))))))))))))))))))) (mask_popcount m)))
            (mul (S (S O)) k0)) (buf_bytes data) with
  | [] -> Panic pIndex
  | a :: l ->
    (match l with
     | [] -> Panic pIndex
     | b :: _ ->
       Ok
         (N.add (N.mul a (Npos (XO (XO (XO (XO (XO (XO (XO (XO XH)))))))))) b))

(** val level_repr :
    (bytes -> bytes) -> bool -> n -> bits -> nat -> nat -> bytes option ->
    (bytes * n) list -> (bytes * n) res **)

let level_repr h special m data nrefs j prev kids =
  let d1 = d1_byte nrefs special (mask_apply m j) in
  let head0 =
    match prev with
    | Some h1 -> d1 :: ((d2_byte (length data)) :: h1)
    | None -> d1 :: ((d2_byte (length data)) :: (data_with_tag data))
  in
  let maxd = fold_left N.max (map snd kids) N0 in
  if (&&) (negb (Nat.eqb nrefs O))
       (N.leb (Npos (XO (XO (XO (XO (XO (XO (XO (XO (XO (XO XH)))))))))))
         maxd)
  then Err eDepth
  else let depth = if Nat.eqb nrefs O then N0 else N.add maxd (Npos XH) in
       Ok
       ((h
          (app head0
            (app (flat_map be16 (map snd kids)) (concat (map fst kids))))),
       depth)

(** val own_levels :
    (bytes -> bytes) -> bool -> n -> bits -> nat -> (nat -> (bytes * n) list
    res) -> nat -> (bytes * n) res **)

let rec own_levels h special m data nrefs kids = function
| O -> bind (kids O) (fun ks -> level_repr h special m data nrefs O None ks)
| S i' ->
  if N.testbit m (N.of_nat i')
  then bind (own_levels h special m data nrefs kids i') (fun prev ->
         bind (kids (S i')) (fun ks ->
           level_repr h special m data nrefs (S i') (Some (fst prev)) ks))
  else own_levels h special m data nrefs kids i'

(** val hd_at : (bytes -> bytes) -> cell -> nat -> (bytes * n) res **)

let rec hd_at h c i =
  let Cell (special, ty, m, data, refs) = c in
  let merkle = is_merkle special ty in
  let kids = fun j ->
    let rec go = function
    | [] -> Ok []
    | ch1 :: t ->
      (match hd_at h ch1 (if merkle then S j else j) with
       | Ok x ->
         (match go t with
          | Ok xs -> Ok (x :: xs)
          | Err e -> Err e
          | Panic p -> Panic p)
       | Err e -> Err e
       | Panic p -> Panic p)
    in go refs
  in
  if is_pruned special ty
  then if Nat.ltb i (mask_level m)
       then let k0 = mask_popcount (mask_apply m i) in
            bind (stored_depth m data k0) (fun d -> Ok
              ((stored_hash m data k0), d))
       else bind (kids (mask_level m)) (fun ks ->
              level_repr h special m data (length refs) (mask_level m) None ks)
  else own_levels h special m data (length refs) kids i

(** val eMerkle : n **)

let eMerkle =
  Npos (XO (XO (XO (XI (XO XH)))))

(** val bytes_to_bits : bytes -> bits **)

let rec bytes_to_bits = function
| [] -> []
| b :: t ->
  app (bits_of (S (S (S (S (S (S (S (S O)))))))) b) (bytes_to_bits t)

(** val pruned_cell : bytes -> n -> cell **)

let pruned_cell h d =
  Cell (true, t_PRUNED, (Npos XH),
    (app (bits_of (S (S (S (S (S (S (S (S O)))))))) (Npos XH))
      (app (bits_of (S (S (S (S (S (S (S (S O)))))))) (Npos XH))
        (app (bytes_to_bits h)
          (bits_of (S (S (S (S (S (S (S (S (S (S (S (S (S (S (S (S
            O)))))))))))))))) d)))), [])

(** val cell_mask : cell -> n **)

let cell_mask = function
| Cell (_, _, m, _, _) -> m

(** val prune :
    (bytes -> bytes) -> (nat list -> bool) -> nat list -> cell -> cell res **)

let rec prune h pruned path c = match c with
| Cell (special, ty, m, data, refs) ->
  if is_merkle special ty
  then Err eMerkle
  else if pruned path
       then bind (hd_at h c O) (fun hd -> Ok (pruned_cell (fst hd) (snd hd)))
       else let go =
              let rec go i = function
              | [] -> Ok []
              | ch1 :: t ->
                bind (prune h pruned (app path (i :: [])) ch1) (fun x ->
                  bind (go (S i) t) (fun xs -> Ok (x :: xs)))
              in go
            in
            bind (go O refs) (fun refs' ->
              let m' =
                fold_left (fun acc ch1 -> N.coq_lor acc (cell_mask ch1))
                  refs' m
              in
              Ok (Cell (special, ty, m', data, refs')))

(** val create_proof :
    (bytes -> bytes) -> (nat list -> bool) -> cell -> cell res **)

let create_proof h pruned root =
  bind (prune h pruned [] root) (fun body ->
    bind (hd_at h root O) (fun hd -> Ok (Cell (true, t_MPROOF, N0,
      (app (bits_of (S (S (S (S (S (S (S (S O)))))))) (Npos (XI XH)))
        (app (bytes_to_bits (fst hd))
          (bits_of (S (S (S (S (S (S (S (S (S (S (S (S (S (S (S (S
            O)))))))))))))))) (snd hd)))), (body :: [])))))

(** val read_n : nat -> bits -> (n * bits) option **)

let read_n k0 l =
  if short k0 l then None else Some ((n_of_bits (firstn k0 l)), (skipn k0 l))

(** val read_unary0 : nat -> bits -> nat -> (nat * bits) option **)

let rec read_unary0 fuel l acc =
  match fuel with
  | O -> None
  | S f ->
    (match l with
     | [] -> None
     | b :: t -> if b then read_unary0 f t (S acc) else Some (acc, t))

(** val load_label : nat -> bits -> (bits * bits) option **)

let load_label m l =
  let w = N.to_nat (N.size (N.of_nat m)) in
  (match l with
   | [] -> None
   | b0 :: t ->
     if b0
     then (match t with
           | [] -> None
           | b1 :: t0 ->
             if b1
             then (match t0 with
                   | [] -> None
                   | b :: t1 ->
                     (match read_n w t1 with
                      | Some p ->
                        let (n0, t') = p in
                        Some ((repeat b (N.to_nat n0)), t')
                      | None -> None))
             else (match read_n w t0 with
                   | Some p ->
                     let (n0, t') = p in
                     let n1 = N.to_nat n0 in
                     if short n1 t'
                     then None
                     else Some ((firstn n1 t'), (skipn n1 t'))
                   | None -> None))
     else (match read_unary0 (S (length t)) t O with
           | Some p ->
             let (n0, t') = p in
             if short n0 t'
             then None
             else Some ((firstn n0 t'), (skipn n0 t'))
           | None -> None))

(** val cell_bits : cell -> bits **)

let cell_bits = function
| Cell (_, _, _, d, _) -> d

(** val cell_refs : cell -> cell list **)

let cell_refs = function
| Cell (_, _, _, _, r) -> r

(** val prove_walk :
    nat -> cell -> bits -> nat -> nat -> bits -> nat list -> nat list list ->
    (((nat list list * nat list) * bits) * bits) res **)

let rec prove_walk fuel c key remaining keysize prefix path pruned =
  match fuel with
  | O -> Err eFuel
  | S f ->
    (match load_label remaining (cell_bits c) with
     | Some p ->
       let (lab, rest) = p in
       let size0 = length lab in
       let prefix' = app prefix lab in
       if Nat.ltb keysize (length prefix')
       then Err eMerkle
       else if Nat.leb remaining size0
            then Ok (((pruned, path), rest), prefix')
            else if short (S size0) key
                 then Err eMerkle
                 else let isRight = nth size0 key false in
                      if Nat.ltb keysize (S (length prefix'))
                      then Err eMerkle
                      else (match cell_refs c with
                            | [] -> Err eMerkle
                            | l :: l0 ->
                              (match l0 with
                               | [] ->
                                 if isRight then Err eMerkle else Panic pIndex
                               | r :: _ ->
                                 if isRight
                                 then prove_walk f r (skipn (S size0) key)
                                        (sub (sub remaining size0) (S O))
                                        keysize (app prefix' (true :: []))
                                        (app path ((S O) :: []))
                                        (app pruned
                                          ((app path (O :: [])) :: []))
                                 else prove_walk f l (skipn (S size0) key)
                                        (sub (sub remaining size0) (S O))
                                        keysize (app prefix' (false :: []))
                                        (app path (O :: []))
                                        (app pruned
                                          ((app path ((S O) :: [])) :: []))))
     | None -> Err eMerkle)

(** val path_eqb : nat list -> nat list -> bool **)

let path_eqb a b =
  (&&) (Nat.eqb (length a) (length b))
    (forallb (fun p -> Nat.eqb (fst p) (snd p)) (combine a b))

(** val in_paths : nat list list -> nat list -> bool **)

let in_paths ps p =
  existsb (path_eqb p) ps

(** val bits_eqb : bits -> bits -> bool **)

let bits_eqb a b =
  (&&) (Nat.eqb (length a) (length b))
    (forallb (fun p -> eqb (fst p) (snd p)) (combine a b))

(** val prove_key : (bytes -> bytes) -> cell -> bits -> nat -> cell res **)

let prove_key h root key vbits =
  bind
    (prove_walk (S (length key)) root key (length key) (length key) [] [] [])
    (fun w ->
    let (p, prefix) = w in
    let (p0, rest) = p in
    let (pruned, _) = p0 in
    if short vbits rest
    then Err eMerkle
    else if short (length key) prefix
         then Err eMerkle
         else if negb (bits_eqb (firstn (length key) prefix) key)
              then Err eMerkle
              else create_proof h (in_paths pruned) root)

(** val tree_at : nat -> node list -> nat -> cell option **)

let rec tree_at fuel cells i =
  match fuel with
  | O -> None
  | S f ->
    (match nth_error cells i with
     | Some nd ->
       let go =
         let rec go = function
         | [] -> Some []
         | r :: t ->
           (match tree_at f cells r with
            | Some x ->
              (match go t with
               | Some xs -> Some (x :: xs)
               | None -> None)
            | None -> None)
         in go
       in
       (match go nd.n_refs with
        | Some ts ->
          Some (Cell (nd.n_special, nd.n_type, nd.n_mask, nd.n_bits, ts))
        | None -> None)
     | None -> None)

(** val index_of : node list -> nat -> nat list -> nat option **)

let rec index_of cells i = function
| [] -> Some i
| k0 :: t ->
  (match nth_error cells i with
   | Some nd ->
     (match nth_error nd.n_refs k0 with
      | Some r -> index_of cells r t
      | None -> None)
   | None -> None)

(** val flatten : cell -> nat -> node list **)

let rec flatten c base =
  let Cell (special, ty, m, data, refs) = c in
  let go =
    let rec go rs cur =
      match rs with
      | [] -> ([], [])
      | ch1 :: t ->
        let blk = flatten ch1 cur in
        let (idxs, rest) = go t (add cur (length blk)) in
        ((cur :: idxs), (app blk rest))
    in go
  in
  let (idxs, blocks0) = go refs (S base) in
  { n_special = special; n_type = ty; n_mask = m; n_bits = data; n_refs =
  idxs } :: blocks0

(** val ser_tree : cell -> sx **)

let ser_tree c =
  let cells = flatten c O in
  (match serialize cells (hashes_of cells) (O :: []) false false false with
   | Ok out -> SBytes out
   | Err _ ->
     SA (String ((Ascii (true, false, true, false, false, true, true,
       false)), (String ((Ascii (false, true, false, false, true, true, true,
       false)), (String ((Ascii (false, true, false, false, true, true, true,
       false)), EmptyString))))))
   | Panic _ ->
     SA (String ((Ascii (false, false, false, false, true, true, true,
       false)), (String ((Ascii (true, false, false, false, false, true,
       true, false)), (String ((Ascii (false, true, true, true, false, true,
       true, false)), (String ((Ascii (true, false, false, true, false, true,
       true, false)), (String ((Ascii (true, true, false, false, false, true,
       true, false)), EmptyString)))))))))))

(** val path_of_sx : sx -> nat list **)

let path_of_sx = function
| SL l -> map (fun x -> match x with
                        | SN n0 -> N.to_nat n0
                        | _ -> O) l
| _ -> []

(** val run_proof : sx -> sx **)

let run_proof = function
| SL l ->
  (match l with
   | [] ->
     sx_err (String ((Ascii (false, false, false, false, true, true, true,
       false)), (String ((Ascii (false, true, false, false, true, true, true,
       false)), (String ((Ascii (true, true, true, true, false, true, true,
       false)), (String ((Ascii (true, true, true, true, false, true, true,
       false)), (String ((Ascii (false, true, true, false, false, true, true,
       false)), EmptyString))))))))))
   | s :: l0 ->
     (match s with
      | SL dag ->
        (match l0 with
         | [] ->
           sx_err (String ((Ascii (false, false, false, false, true, true,
             true, false)), (String ((Ascii (false, true, false, false, true,
             true, true, false)), (String ((Ascii (true, true, true, true,
             false, true, true, false)), (String ((Ascii (true, true, true,
             true, false, true, true, false)), (String ((Ascii (false, true,
             true, false, false, true, true, false)), EmptyString))))))))))
         | s0 :: l1 ->
           (match s0 with
            | SN root ->
              (match l1 with
               | [] ->
                 sx_err (String ((Ascii (false, false, false, false, true,
                   true, true, false)), (String ((Ascii (false, true, false,
                   false, true, true, true, false)), (String ((Ascii (true,
                   true, true, true, false, true, true, false)), (String
                   ((Ascii (true, true, true, true, false, true, true,
                   false)), (String ((Ascii (false, true, true, false, false,
                   true, true, false)), EmptyString))))))))))
               | s1 :: l2 ->
                 (match s1 with
                  | SL paths ->
                    (match l2 with
                     | [] ->
                       (match nodes_of_sx dag with
                        | Some cells ->
                          let root0 = N.to_nat root in
                          (match tree_at (S (length cells)) cells root0 with
                           | Some t ->
                             let pidx =
                               flat_map (fun p ->
                                 match index_of cells root0 (path_of_sx p) with
                                 | Some i -> i :: []
                                 | None -> []) paths
                             in
                             let pruned = fun p ->
                               match index_of cells root0 p with
                               | Some i -> existsb (Nat.eqb i) pidx
                               | None -> false
                             in
                             (match create_proof sha256 pruned t with
                              | Ok p -> ser_tree p
                              | Err _ ->
                                SA (String ((Ascii (true, false, true, false,
                                  false, true, true, false)), (String ((Ascii
                                  (false, true, false, false, true, true,
                                  true, false)), (String ((Ascii (false,
                                  true, false, false, true, true, true,
                                  false)), EmptyString))))))
                              | Panic _ ->
                                SA (String ((Ascii (false, false, false,
                                  false, true, true, true, false)), (String
                                  ((Ascii (true, false, false, false, false,
                                  true, true, false)), (String ((Ascii
                                  (false, true, true, true, false, true,
                                  true, false)), (String ((Ascii (true,
                                  false, false, true, false, true, true,
                                  false)), (String ((Ascii (true, true,
                                  false, false, false, true, true, false)),
                                  EmptyString)))))))))))
                           | None ->
                             sx_err (String ((Ascii (false, false, true,
                               false, true, true, true, false)), (String
                               ((Ascii (false, true, false, false, true,
                               true, true, false)), (String ((Ascii (true,
                               false, true, false, false, true, true,
                               false)), (String ((Ascii (true, false, true,
                               false, false, true, true, false)),
                               EmptyString)))))))))
                        | None ->
                          sx_err (String ((Ascii (false, false, true, false,
                            false, true, true, false)), (String ((Ascii
                            (true, false, false, false, false, true, true,
                            false)), (String ((Ascii (true, true, true,
                            false, false, true, true, false)),
                            EmptyString)))))))
                     | _ :: _ ->
                       sx_err (String ((Ascii (false, false, false, false,
                         true, true, true, false)), (String ((Ascii (false,
                         true, false, false, true, true, true, false)),
                         (String ((Ascii (true, true, true, true, false,
                         true, true, false)), (String ((Ascii (true, true,
                         true, true, false, true, true, false)), (String
                         ((Ascii (false, true, true, false, false, true,
                         true, false)), EmptyString)))))))))))
                  | _ ->
                    sx_err (String ((Ascii (false, false, false, false, true,
                      true, true, false)), (String ((Ascii (false, true,
                      false, false, true, true, true, false)), (String
                      ((Ascii (true, true, true, true, false, true, true,
                      false)), (String ((Ascii (true, true, true, true,
                      false, true, true, false)), (String ((Ascii (false,
                      true, true, false, false, true, true, false)),
                      EmptyString))))))))))))
            | _ ->
              sx_err (String ((Ascii (false, false, false, false, true, true,
                true, false)), (String ((Ascii (false, true, false, false,
                true, true, true, false)), (String ((Ascii (true, true, true,
                true, false, true, true, false)), (String ((Ascii (true,
                true, true, true, false, true, true, false)), (String ((Ascii
                (false, true, true, false, false, true, true, false)),
                EmptyString))))))))))))
      | _ ->
        sx_err (String ((Ascii (false, false, false, false, true, true, true,
          false)), (String ((Ascii (false, true, false, false, true, true,
          true, false)), (String ((Ascii (true, true, true, true, false,
          true, true, false)), (String ((Ascii (true, true, true, true,
          false, true, true, false)), (String ((Ascii (false, true, true,
          false, false, true, true, false)), EmptyString))))))))))))
| _ ->
  sx_err (String ((Ascii (false, false, false, false, true, true, true,
    false)), (String ((Ascii (false, true, false, false, true, true, true,
    false)), (String ((Ascii (true, true, true, true, false, true, true,
    false)), (String ((Ascii (true, true, true, true, false, true, true,
    false)), (String ((Ascii (false, true, true, false, false, true, true,
    false)), EmptyString))))))))))

(** val run_key : sx -> sx **)

let run_key = function
| SL l ->
  (match l with
   | [] ->
     sx_err (String ((Ascii (true, true, false, true, false, true, true,
       false)), (String ((Ascii (true, false, true, false, false, true, true,
       false)), (String ((Ascii (true, false, false, true, true, true, true,
       false)), EmptyString))))))
   | s :: l0 ->
     (match s with
      | SL dag ->
        (match l0 with
         | [] ->
           sx_err (String ((Ascii (true, true, false, true, false, true,
             true, false)), (String ((Ascii (true, false, true, false, false,
             true, true, false)), (String ((Ascii (true, false, false, true,
             true, true, true, false)), EmptyString))))))
         | s0 :: l1 ->
           (match s0 with
            | SN root ->
              (match l1 with
               | [] ->
                 sx_err (String ((Ascii (true, true, false, true, false,
                   true, true, false)), (String ((Ascii (true, false, true,
                   false, false, true, true, false)), (String ((Ascii (true,
                   false, false, true, true, true, true, false)),
                   EmptyString))))))
               | s1 :: l2 ->
                 (match s1 with
                  | SBits key ->
                    (match l2 with
                     | [] ->
                       sx_err (String ((Ascii (true, true, false, true,
                         false, true, true, false)), (String ((Ascii (true,
                         false, true, false, false, true, true, false)),
                         (String ((Ascii (true, false, false, true, true,
                         true, true, false)), EmptyString))))))
                     | s2 :: l3 ->
                       (match s2 with
                        | SN vbits ->
                          (match l3 with
                           | [] ->
                             (match nodes_of_sx dag with
                              | Some cells ->
                                (match tree_at (S (length cells)) cells
                                         (N.to_nat root) with
                                 | Some t ->
                                   (match prove_key sha256 t key
                                            (N.to_nat vbits) with
                                    | Ok p -> ser_tree p
                                    | Err _ ->
                                      SA (String ((Ascii (true, false, true,
                                        false, false, true, true, false)),
                                        (String ((Ascii (false, true, false,
                                        false, true, true, true, false)),
                                        (String ((Ascii (false, true, false,
                                        false, true, true, true, false)),
                                        EmptyString))))))
                                    | Panic _ ->
                                      SA (String ((Ascii (false, false,
                                        false, false, true, true, true,
                                        false)), (String ((Ascii (true,
                                        false, false, false, false, true,
                                        true, false)), (String ((Ascii
                                        (false, true, true, true, false,
                                        true, true, false)), (String ((Ascii
                                        (true, false, false, true, false,
                                        true, true, false)), (String ((Ascii
                                        (true, true, false, false, false,
                                        true, true, false)),
                                        EmptyString)))))))))))
                                 | None ->
                                   sx_err (String ((Ascii (false, false,
                                     true, false, true, true, true, false)),
                                     (String ((Ascii (false, true, false,
                                     false, true, true, true, false)),
                                     (String ((Ascii (true, false, true,
                                     false, false, true, true, false)),
                                     (String ((Ascii (true, false, true,
                                     false, false, true, true, false)),
                                     EmptyString)))))))))
                              | None ->
                                sx_err (String ((Ascii (false, false, true,
                                  false, false, true, true, false)), (String
                                  ((Ascii (true, false, false, false, false,
                                  true, true, false)), (String ((Ascii (true,
                                  true, true, false, false, true, true,
                                  false)), EmptyString)))))))
                           | _ :: _ ->
                             sx_err (String ((Ascii (true, true, false, true,
                               false, true, true, false)), (String ((Ascii
                               (true, false, true, false, false, true, true,
                               false)), (String ((Ascii (true, false, false,
                               true, true, true, true, false)),
                               EmptyString)))))))
                        | _ ->
                          sx_err (String ((Ascii (true, true, false, true,
                            false, true, true, false)), (String ((Ascii
                            (true, false, true, false, false, true, true,
                            false)), (String ((Ascii (true, false, false,
                            true, true, true, true, false)), EmptyString))))))))
                  | _ ->
                    sx_err (String ((Ascii (true, true, false, true, false,
                      true, true, false)), (String ((Ascii (true, false,
                      true, false, false, true, true, false)), (String
                      ((Ascii (true, false, false, true, true, true, true,
                      false)), EmptyString))))))))
            | _ ->
              sx_err (String ((Ascii (true, true, false, true, false, true,
                true, false)), (String ((Ascii (true, false, true, false,
                false, true, true, false)), (String ((Ascii (true, false,
                false, true, true, true, true, false)), EmptyString))))))))
      | _ ->
        sx_err (String ((Ascii (true, true, false, true, false, true, true,
          false)), (String ((Ascii (true, false, true, false, false, true,
          true, false)), (String ((Ascii (true, false, false, true, true,
          true, true, false)), EmptyString))))))))
| _ ->
  sx_err (String ((Ascii (true, true, false, true, false, true, true,
    false)), (String ((Ascii (true, false, true, false, false, true, true,
    false)), (String ((Ascii (true, false, false, true, true, true, true,
    false)), EmptyString))))))

(** val bits_cmp : bits -> bits -> comparison **)

let rec bits_cmp a b =
  match a with
  | [] -> (match b with
           | [] -> Eq
           | _ :: _ -> Lt)
  | x :: a' ->
    (match b with
     | [] -> Gt
     | y :: b' ->
       if x
       then if y then bits_cmp a' b' else Gt
       else if y then Lt else bits_cmp a' b')

(** val bits_ltb : bits -> bits -> bool **)

let bits_ltb a b =
  match bits_cmp a b with
  | Lt -> true
  | _ -> false

(** val bits_eqb0 : bits -> bits -> bool **)

let bits_eqb0 a b =
  match bits_cmp a b with
  | Eq -> true
  | _ -> false

type cell0 =
| Cell0 of bits * cell0 list

(** val mk_cell : bits -> cell0 list -> cell0 res **)

let mk_cell b rs =
  if Nat.ltb (S (S (S (S (S (S (S (S (S (S (S (S (S (S (S (S (S (S (S (S (S
       (S (S (S (S (S (S (S (S (S (S (S (S (S (S (S (S (S (S (S (S (S (S (S
       (S (S (S (S (S (S (S (S (S (S (S (S (S (S (S (S (S (S (S (S (S (S (S
       (S (S (S (S (S (S (S (S (S (S (S (S (S (S (S (S (S (S (S (S (S (S (S
       (S (S (S (S (S (S (S (S (S (S (S (S (S (S (S (S (S (S (S (S (S (S (S
       (S (S (S (S (S (S (S (S (S (S (S (S (S (S (S (S (S (S (S (S (S (S (S
       (S (S (S (S (S (S (S (S (S (S (S (S (S (S (S (S (S (S (S (S (S (S (S
       (S (S (S (S (S (S (S (S (S (S (S (S (S (S (S (S (S (S (S (S (S (S (S
       (S (S (S (S (S (S (S (S (S (S (S (S (S (S (S (S (S (S (S (S (S (S (S
       (S (S (S (S (S (S (S (S (S (S (S (S (S (S (S (S (S (S (S (S (S (S (S
       (S (S (S (S (S (S (S (S (S (S (S (S (S (S (S (S (S (S (S (S (S (S (S
       (S (S (S (S (S (S (S (S (S (S (S (S (S (S (S (S (S (S (S (S (S (S (S
       (S (S (S (S (S (S (S (S (S (S (S (S (S (S (S (S (S (S (S (S (S (S (S
       (S (S (S (S (S (S (S (S (S (S (S (S (S (S (S (S (S (S (S (S (S (S (S
       (S (S (S (S (S (S (S (S (S (S (S (S (S (S (S (S (S (S (S (S (S (S (S
       (S (S (S (S (S (S (S (S (S (S (S (S (S (S (S (S (S (S (S (S (S (S (S
       (S (S (S (S (S (S (S (S (S (S (S (S (S (S (S (S (S (S (S (S (S (S (S
       (S (S (S (S (S (S (S (S (S (S (S (S (S (S (S (S (S (S (S (S (S (S (S
       (S (S (S (S (S (S (S (S (S (S (S (S (S (S (S (S (S (S (S (S (S (S (S
       (S (S (S (S (S (S (S (S (S (S (S (S (S (S (S (S (S (S (S (S (S (S (S
       (S (S (S (S (S (S (S (S (S (S (S (S (S (S (S (S (S (S (S (S (S (S (S
       (S (S (S (S (S (S (S (S (S (S (S (S (S (S (S (S (S (S (S (S (S (S (S
       (S (S (S (S (S (S (S (S (S (S (S (S (S (S (S (S (S (S (S (S (S (S (S
       (S (S (S (S (S (S (S (S (S (S (S (S (S (S (S (S (S (S (S (S (S (S (S
       (S (S (S (S (S (S (S (S (S (S (S (S (S (S (S (S (S (S (S (S (S (S (S
       (S (S (S (S (S (S (S (S (S (S (S (S (S (S (S (S (S (S (S (S (S (S (S
       (S (S (S (S (S (S (S (S (S (S (S (S (S (S (S (S (S (S (S (S (S (S (S
       (S (S (S (S (S (S (S (S (S (S (S (S (S (S (S (S (S (S (S (S (S (S (S
       (S (S (S (S (S (S (S (S (S (S (S (S (S (S (S (S (S (S (S (S (S (S (S
       (S (S (S (S (S (S (S (S (S (S (S (S (S (S (S (S (S (S (S (S (S (S (S
       (S (S (S (S (S (S (S (S (S (S (S (S (S (S (S (S (S (S (S (S (S (S (S
       (S (S (S (S (S (S (S (S (S (S (S (S (S (S (S (S (S (S (S (S (S (S (S
       (S (S (S (S (S (S (S (S (S (S (S (S (S (S (S (S (S (S (S (S (S (S (S
       (S (S (S (S (S (S (S (S (S (S (S (S (S (S (S (S (S (S (S (S (S (S (S
       (S (S (S (S (S (S (S (S (S (S (S (S (S (S (S (S (S (S (S (S (S (S (S
       (S (S (S (S (S (S (S (S (S (S (S (S (S (S (S (S (S (S (S (S (S (S (S
       (S (S (S (S (S (S (S (S (S (S (S (S (S (S (S (S (S (S (S (S (S (S (S
       (S (S (S (S (S (S (S (S (S (S (S (S (S (S (S (S (S (S (S (S (S (S (S
       (S (S (S (S (S (S (S (S (S (S (S (S (S (S (S (S (S (S (S (S (S (S (S
       (S (S (S (S (S (S (S (S (S (S (S (S (S (S (S (S (S (S (S (S (S (S (S
       (S (S (S (S (S (S (S (S (S (S (S (S (S (S (S (S (S (S (S (S (S (S (S
       (S (S (S (S (S (S (S (S (S (S (S (S (S (S (S (S (S (S (S (S (S (S (S
       (S (S (S (S (S (S (S (S (S (S (S (S (S (S (S (S (S (S (S (S (S (S (S
       (S (S (S (S (S (S (S (S (S (S (S (S (S (S (S (S (S (S (S (S (S (S (S
       (S (S (S (S (S (S (S (S (S (S (S (S (S
       O)))))))))))))))))))))))))))))))))))))))))))))))))))))))))))))))))))))))))))))))))))))))))))))))))))))))))))))))))))))))))))))))))))))))))))))))))))))))))))))))))))))))))))))))))))))))))))))))))))))))))))))))))))))))))))))))))))))))))))))))))))))))))))))))))))))))))))))))))))))))))))))))))))))))))))))))))))))))))))))))))))))))))))))))))))))))))))))))))))))))))))))))))))))))))))))))))))))))))))))))))))))))))))))))))))))))))))))))))))))))))))))))))))))))))))))))))))))))))))))))))))))))))))))))))))))))))))))))))))))))))))))))))))))))))))))))))))))))))))))))))))))))))))))))))))))))))))))))))))))))))))))))))))))))))))))))))))))))))))))))))))))))))))))))))))))))))))))))))))))))))))))))))))))))))))))))))))))))))))))))))))))))))))))))))))))))))))))))))))))))))))))))))))))))))))))))))))))))))))))))))))))))))))))))))))))))))))))))))))))))))))))))))))))))))))))))))))))))))))))))))))))))))))))))))))))))))))))))))))))))))))))))))))))))))))))))))))))))))))))))))))))))))))))))))))))))))))))))))))))))))))))))))))))))))))))))
       (length b)
  then Err eOverflow
  else if Nat.ltb (S (S (S (S O)))) (length rs)
       then Err eRefsOverflow
       else Ok (Cell0 (b, rs))

type form =
| FShort
| FLong
| FSame of bool

(** val lim_width : nat -> nat **)

let lim_width m =
  N.to_nat (N.size (N.of_nat m))

(** val hml_short : bits -> bits **)

let hml_short lbl =
  false :: (app (ones (length lbl)) (false :: lbl))

(** val hml_long : nat -> bits -> bits **)

let hml_long m lbl =
  true :: (false :: (app (bits_of (lim_width m) (N.of_nat (length lbl))) lbl))

(** val hml_same : nat -> bool -> nat -> bits **)

let hml_same m b len0 =
  true :: (true :: (b :: (bits_of (lim_width m) (N.of_nat len0))))

(** val enc_label : form -> nat -> bits -> bits **)

let enc_label f m lbl =
  match f with
  | FShort -> hml_short lbl
  | FLong -> hml_long m lbl
  | FSame b -> hml_same m b (length lbl)

type 'v apt =
| ALeaf of form * bits * 'v
| AFork of form * bits * 'v apt * 'v apt

(** val cells_of :
    ('a1 -> bits * cell0 list) -> nat -> 'a1 apt -> cell0 res **)

let rec cells_of venc m = function
| ALeaf (f, lbl, v) ->
  mk_cell (app (enc_label f m lbl) (fst (venc v))) (snd (venc v))
| AFork (f, lbl, l, r) ->
  bind (cells_of venc (sub (sub m (length lbl)) (S O)) l) (fun lc ->
    bind (cells_of venc (sub (sub m (length lbl)) (S O)) r) (fun rc ->
      mk_cell (enc_label f m lbl) (lc :: (rc :: []))))

(** val lcp_go : bits -> bits -> bits res **)

let rec lcp_go a b =
  match a with
  | [] -> Err eNotEnoughBits
  | x :: a' ->
    (match a' with
     | [] -> Ok []
     | _ :: _ ->
       (match b with
        | [] -> Err eNotEnoughBits
        | y :: b' ->
          if eqb x y
          then bind (lcp_go a' b') (fun r -> Ok (x :: r))
          else Ok []))

(** val enc_label_go : nat -> bits -> bits **)

let enc_label_go m lbl =
  if Nat.ltb (length lbl) (S (S (S (S (S (S (S (S O))))))))
  then false :: (app (app (ones (length lbl)) (false :: [])) lbl)
  else true :: (false :: (app (bits_of (lim_width m) (N.of_nat (length lbl)))
                           lbl))

(** val binsert : (bits * 'a1) -> (bits * 'a1) list -> (bits * 'a1) list **)

let rec binsert x l = match l with
| [] -> x :: []
| y :: t -> if bits_ltb (fst y) (fst x) then y :: (binsert x t) else x :: l

(** val bsort : (bits * 'a1) list -> (bits * 'a1) list **)

let rec bsort = function
| [] -> []
| x :: t -> binsert x (bsort t)

(** val split_keys :
    nat -> (bits * 'a1) list -> ((bits * 'a1) list * (bits * 'a1) list) res **)

let rec split_keys sk = function
| [] -> Ok ([], [])
| p :: t ->
  let (k0, v) = p in
  if short sk k0
  then Err eNotEnoughBits
  else (match skipn sk k0 with
        | [] -> Err eNotEnoughBits
        | b :: k' ->
          bind (split_keys sk t) (fun lr -> Ok
            (if b
             then ((fst lr), ((k', v) :: (snd lr)))
             else (((k', v) :: (fst lr)), (snd lr)))))

(** val encode_map :
    ('a1 -> bits * cell0 list) -> nat -> nat -> (bits * 'a1) list -> cell0 res **)

let rec encode_map venc fuel n0 kvs =
  match fuel with
  | O -> Err eFuel
  | S fuel' ->
    (match kvs with
     | [] -> Err eOther
     | p :: l ->
       let (k0, v0) = p in
       (match l with
        | [] ->
          mk_cell (app (enc_label_go n0 k0) (fst (venc v0))) (snd (venc v0))
        | _ :: _ ->
          bind (lcp_go k0 (fst (last kvs (k0, v0)))) (fun lbl ->
            let n' = sub (sub n0 (length lbl)) (S O) in
            bind (split_keys (length lbl) kvs) (fun lr ->
              bind (encode_map venc fuel' n' (fst lr)) (fun lc ->
                bind (encode_map venc fuel' n' (snd lr)) (fun rc ->
                  mk_cell (enc_label_go n0 lbl) (lc :: (rc :: []))))))))

(** val encode :
    ('a1 -> bits * cell0 list) -> nat -> (bits * 'a1) list -> cell0 res **)

let encode venc n0 kvs = match kvs with
| [] -> Ok (Cell0 ([], []))
| _ :: _ -> encode_map venc (S (length kvs)) n0 (bsort kvs)

(** val encode_e :
    ('a1 -> bits * cell0 list) -> nat -> (bits * 'a1) list -> cell0 res **)

let encode_e venc n0 kvs = match kvs with
| [] -> mk_cell (false :: []) []
| _ :: _ ->
  bind (encode venc n0 kvs) (fun c -> mk_cell (true :: []) (c :: []))

(** val read_unary1 : bits -> (nat * bits) res **)

let rec read_unary1 = function
| [] -> Err eNotEnoughBits
| b :: t ->
  if b
  then bind (read_unary1 t) (fun r -> Ok ((S (fst r)), (snd r)))
  else Ok (O, t)

(** val read_lim : nat -> bits -> (n * bits) res **)

let read_lim m l =
  let w = lim_width m in
  if short w l
  then Err eNotEnoughBits
  else Ok ((n_of_bits (firstn w l)), (skipn w l))

(** val load_label0 : nat -> nat -> bits -> (bits * bits) res **)

let load_label0 m room = function
| [] -> Err eNotEnoughBits
| b0 :: c1 ->
  if b0
  then (match c1 with
        | [] -> Err eNotEnoughBits
        | b1 :: c2 ->
          if b1
          then (match c2 with
                | [] -> Err eNotEnoughBits
                | b :: c3 ->
                  bind (read_lim m c3) (fun r ->
                    let (lnN, c4) = r in
                    if N.ltb (N.of_nat room) lnN
                    then Err eOverflow
                    else Ok ((repeat b (N.to_nat lnN)), c4)))
          else bind (read_lim m c2) (fun r ->
                 let (lnN, c3) = r in
                 if N.ltb (N.of_nat room) lnN
                 then Err eOverflow
                 else let ln = N.to_nat lnN in
                      if short ln c3
                      then Err eNotEnoughBits
                      else Ok ((firstn ln c3), (skipn ln c3))))
  else bind (read_unary1 c1) (fun r ->
         let (ln, c2) = r in
         if short ln c2
         then Err eNotEnoughBits
         else if Nat.ltb room ln
              then Err eOverflow
              else Ok ((firstn ln c2), (skipn ln c2)))

(** val vdec_res :
    (bits -> cell0 list -> 'a1 option) -> bits -> cell0 list -> 'a1 res **)

let vdec_res vdec l rs =
  match vdec l rs with
  | Some v -> Ok v
  | None -> Err eOther

(** val map_inner :
    (bits -> cell0 list -> 'a1 option) -> nat -> nat -> cell0 -> bits ->
    (bits * 'a1) list res **)

let rec map_inner vdec n0 left c prefix =
  let Cell0 (cb, refs) = c in
  bind (load_label0 left (sub n0 (length prefix)) cb) (fun lr ->
    let (lbl, rest) = lr in
    let prefix' = app prefix lbl in
    let left' = sub left (add (S O) (length lbl)) in
    if Nat.ltb (length prefix') n0
    then (match refs with
          | [] -> Err eNotEnoughRefs
          | l :: refs' ->
            bind (map_inner vdec n0 left' l (app prefix' (false :: [])))
              (fun la ->
              match refs' with
              | [] -> Err eNotEnoughRefs
              | r :: _ ->
                bind (map_inner vdec n0 left' r (app prefix' (true :: [])))
                  (fun ra -> Ok (app la ra))))
    else bind (vdec_res vdec rest refs) (fun v -> Ok (((firstn n0 prefix'),
           v) :: [])))

(** val decode :
    (bits -> cell0 list -> 'a1 option) -> nat -> cell0 -> (bits * 'a1) list
    res **)

let decode vdec n0 c =
  map_inner vdec n0 n0 c []

(** val decode_e :
    (bits -> cell0 list -> 'a1 option) -> nat -> cell0 -> (bits * 'a1) list
    res **)

let decode_e vdec n0 = function
| Cell0 (cbits, crefs) ->
  (match cbits with
   | [] -> Err eNotEnoughBits
   | b :: _ ->
     if b
     then (match crefs with
           | [] -> Err eNotEnoughRefs
           | r :: _ -> decode vdec n0 r)
     else Ok [])

(** val replace_val :
    ('a1 -> 'a1 -> bool) -> 'a1 -> 'a2 -> ('a1 * 'a2) list -> ('a1 * 'a2)
    list option **)

let rec replace_val keq k0 v = function
| [] -> None
| p :: t ->
  let (k', v') = p in
  if keq k' k0
  then Some ((k', v) :: t)
  else (match replace_val keq k0 v t with
        | Some t' -> Some ((k', v') :: t')
        | None -> None)

(** val insert_at :
    ('a1 -> 'a1 -> bool) -> 'a1 -> 'a2 -> ('a1 * 'a2) list -> ('a1 * 'a2) list **)

let rec insert_at klt k0 v m = match m with
| [] -> (k0, v) :: []
| p :: t ->
  let (k', v') = p in
  if klt k0 k' then (k0, v) :: m else (k', v') :: (insert_at klt k0 v t)

(** val put :
    ('a1 -> 'a1 -> bool) -> ('a1 -> 'a1 -> bool) -> 'a1 -> 'a2 -> ('a1 * 'a2)
    list -> ('a1 * 'a2) list **)

let put keq klt k0 v m =
  match replace_val keq k0 v m with
  | Some m' -> m'
  | None -> insert_at klt k0 v m

(** val get :
    ('a1 -> 'a1 -> bool) -> 'a1 -> ('a1 * 'a2) list -> 'a2 option **)

let rec get keq k0 = function
| [] -> None
| p :: t -> let (k', v') = p in if keq k' k0 then Some v' else get keq k0 t

(** val puts :
    ('a1 -> 'a1 -> bool) -> ('a1 -> 'a1 -> bool) -> ('a1 * 'a2) list ->
    ('a1 * 'a2) list -> ('a1 * 'a2) list **)

let puts keq klt l m =
  fold_left (fun m0 kv -> put keq klt (fst kv) (snd kv) m0) l m

(** val flip_first : bits -> bits **)

let flip_first = function
| [] -> []
| x :: t -> (negb x) :: t

(** val signed_ltb : bits -> bits -> bool **)

let signed_ltb a b =
  bits_ltb (flip_first a) (flip_first b)

(** val int_key : nat -> z -> bits **)

let int_key w x =
  bits_of w (Z.to_N (Z.modulo x (Z.pow (Zpos (XO XH)) (Z.of_nat w))))

(** val bytes_key : n list -> bits **)

let bytes_key a =
  flat_map (bits_of (S (S (S (S (S (S (S (S O))))))))) a

(** val addr_key : (z * n list) -> bits **)

let addr_key k0 =
  app
    (int_key (S (S (S (S (S (S (S (S (S (S (S (S (S (S (S (S (S (S (S (S (S
      (S (S (S (S (S (S (S (S (S (S (S O))))))))))))))))))))))))))))))))
      (fst k0)) (bytes_key (snd k0))

(** val bytes_of_bits0 : nat -> bits -> n list **)

let rec bytes_of_bits0 fuel l =
  match fuel with
  | O -> []
  | S f ->
    (match l with
     | [] -> []
     | _ :: _ ->
       (n_of_bits (firstn (S (S (S (S (S (S (S (S O)))))))) l)) :: (bytes_of_bits0
                                                                    f
                                                                    (skipn (S
                                                                    (S (S (S
                                                                    (S (S (S
                                                                    (S
                                                                    O))))))))
                                                                    l)))

(** val addr_unkey : bits -> z * n list **)

let addr_unkey k0 =
  let u =
    N.modulo
      (n_of_bits
        (firstn (S (S (S (S (S (S (S (S (S (S (S (S (S (S (S (S (S (S (S (S
          (S (S (S (S (S (S (S (S (S (S (S (S
          O)))))))))))))))))))))))))))))))) k0)) (Npos (XO (XO (XO (XO (XO
      (XO (XO (XO XH)))))))))
  in
  ((if N.leb (Npos (XO (XO (XO (XO (XO (XO (XO XH)))))))) u
    then Z.sub (Z.of_N u) (Zpos (XO (XO (XO (XO (XO (XO (XO (XO XH)))))))))
    else Z.of_N u),
  (bytes_of_bits0 (S (S (S (S (S (S (S (S (S (S (S (S (S (S (S (S (S (S (S (S
    (S (S (S (S (S (S (S (S (S (S (S (S O))))))))))))))))))))))))))))))))
    (skipn (S (S (S (S (S (S (S (S (S (S (S (S (S (S (S (S (S (S (S (S (S (S
      (S (S (S (S (S (S (S (S (S (S O)))))))))))))))))))))))))))))))) k0)))

(** val venc_val : n -> bits * cell0 list **)

let venc_val v =
  ((bits_of (S (S (S (S (S (S (S (S (S (S (S (S (S (S (S (S (S (S (S (S (S (S
     (S (S (S (S (S (S (S (S (S (S O)))))))))))))))))))))))))))))))) v), [])

(** val vdec_val : bits -> cell0 list -> n option **)

let vdec_val l _ =
  if short (S (S (S (S (S (S (S (S (S (S (S (S (S (S (S (S (S (S (S (S (S (S
       (S (S (S (S (S (S (S (S (S (S O)))))))))))))))))))))))))))))))) l
  then None
  else Some
         (n_of_bits
           (firstn (S (S (S (S (S (S (S (S (S (S (S (S (S (S (S (S (S (S (S
             (S (S (S (S (S (S (S (S (S (S (S (S (S
             O)))))))))))))))))))))))))))))))) l))

(** val sx_cell : cell0 -> sx **)

let rec sx_cell = function
| Cell0 (b, rs) -> SL ((SBits b) :: ((SL (map sx_cell rs)) :: []))

(** val cell_sx : sx -> cell0 option **)

let rec cell_sx = function
| SL l ->
  (match l with
   | [] -> None
   | s :: l0 ->
     (match s with
      | SBits b ->
        (match l0 with
         | [] -> None
         | s0 :: l1 ->
           (match s0 with
            | SL rs ->
              (match l1 with
               | [] ->
                 let go =
                   let rec go = function
                   | [] -> Some []
                   | x :: t ->
                     (match cell_sx x with
                      | Some c ->
                        (match go t with
                         | Some cs -> Some (c :: cs)
                         | None -> None)
                      | None -> None)
                   in go
                 in
                 (match go rs with
                  | Some cs -> Some (Cell0 (b, cs))
                  | None -> None)
               | _ :: _ -> None)
            | _ -> None))
      | _ -> None))
| _ -> None

(** val sx_res0 : ('a1 -> sx) -> 'a1 res -> sx **)

let sx_res0 f = function
| Ok a -> f a
| Err _ ->
  SA (String ((Ascii (true, false, true, false, false, true, true, false)),
    (String ((Ascii (false, true, false, false, true, true, true, false)),
    (String ((Ascii (false, true, false, false, true, true, true, false)),
    EmptyString))))))
| Panic _ ->
  SA (String ((Ascii (false, false, false, false, true, true, true, false)),
    (String ((Ascii (true, false, false, false, false, true, true, false)),
    (String ((Ascii (false, true, true, true, false, true, true, false)),
    (String ((Ascii (true, false, false, true, false, true, true, false)),
    (String ((Ascii (true, true, false, false, false, true, true, false)),
    EmptyString))))))))))

(** val sx_items : (bits * n) list -> sx **)

let sx_items m =
  SL (map (fun kv -> SL ((SBits (fst kv)) :: ((SN (snd kv)) :: []))) m)

(** val items_sx : sx list -> (bits * n) list option **)

let rec items_sx = function
| [] -> Some []
| s :: t ->
  (match s with
   | SL l0 ->
     (match l0 with
      | [] -> None
      | s0 :: l1 ->
        (match s0 with
         | SBits k0 ->
           (match l1 with
            | [] -> None
            | s1 :: l2 ->
              (match s1 with
               | SN v ->
                 (match l2 with
                  | [] ->
                    (match items_sx t with
                     | Some m -> Some ((k0, v) :: m)
                     | None -> None)
                  | _ :: _ -> None)
               | _ -> None))
         | _ -> None))
   | _ -> None)

(** val klt_of : bool -> bits -> bits -> bool **)

let klt_of = function
| true -> signed_ltb
| false -> bits_ltb

(** val enc_mode : bool -> nat -> (bits * n) list -> cell0 res **)

let enc_mode e n0 m =
  if e then encode_e venc_val n0 m else encode venc_val n0 m

(** val dec_mode : bool -> nat -> cell0 -> (bits * n) list res **)

let dec_mode e n0 c =
  if e then decode_e vdec_val n0 c else decode vdec_val n0 c

(** val run_encode : sx -> sx **)

let run_encode = function
| SL l ->
  (match l with
   | [] ->
     sx_err (String ((Ascii (true, false, true, false, false, true, true,
       false)), (String ((Ascii (false, true, true, true, false, true, true,
       false)), (String ((Ascii (true, true, false, false, false, true, true,
       false)), (String ((Ascii (true, true, true, true, false, true, true,
       false)), (String ((Ascii (false, false, true, false, false, true,
       true, false)), (String ((Ascii (true, false, true, false, false, true,
       true, false)), EmptyString))))))))))))
   | s :: l0 ->
     (match s with
      | SN n0 ->
        (match l0 with
         | [] ->
           sx_err (String ((Ascii (true, false, true, false, false, true,
             true, false)), (String ((Ascii (false, true, true, true, false,
             true, true, false)), (String ((Ascii (true, true, false, false,
             false, true, true, false)), (String ((Ascii (true, true, true,
             true, false, true, true, false)), (String ((Ascii (false, false,
             true, false, false, true, true, false)), (String ((Ascii (true,
             false, true, false, false, true, true, false)),
             EmptyString))))))))))))
         | s0 :: l1 ->
           (match s0 with
            | SB sgn ->
              (match l1 with
               | [] ->
                 sx_err (String ((Ascii (true, false, true, false, false,
                   true, true, false)), (String ((Ascii (false, true, true,
                   true, false, true, true, false)), (String ((Ascii (true,
                   true, false, false, false, true, true, false)), (String
                   ((Ascii (true, true, true, true, false, true, true,
                   false)), (String ((Ascii (false, false, true, false,
                   false, true, true, false)), (String ((Ascii (true, false,
                   true, false, false, true, true, false)),
                   EmptyString))))))))))))
               | s1 :: l2 ->
                 (match s1 with
                  | SB e ->
                    (match l2 with
                     | [] ->
                       sx_err (String ((Ascii (true, false, true, false,
                         false, true, true, false)), (String ((Ascii (false,
                         true, true, true, false, true, true, false)),
                         (String ((Ascii (true, true, false, false, false,
                         true, true, false)), (String ((Ascii (true, true,
                         true, true, false, true, true, false)), (String
                         ((Ascii (false, false, true, false, false, true,
                         true, false)), (String ((Ascii (true, false, true,
                         false, false, true, true, false)),
                         EmptyString))))))))))))
                     | s2 :: l3 ->
                       (match s2 with
                        | SL kvs ->
                          (match l3 with
                           | [] ->
                             (match items_sx kvs with
                              | Some l4 ->
                                sx_res0 sx_cell
                                  (enc_mode e (N.to_nat n0)
                                    (puts bits_eqb0 (klt_of sgn) l4 []))
                              | None ->
                                sx_err (String ((Ascii (true, false, true,
                                  false, false, true, true, false)), (String
                                  ((Ascii (false, true, true, true, false,
                                  true, true, false)), (String ((Ascii (true,
                                  true, false, false, false, true, true,
                                  false)), (String ((Ascii (true, true, true,
                                  true, false, true, true, false)), (String
                                  ((Ascii (false, false, true, false, false,
                                  true, true, false)), (String ((Ascii (true,
                                  false, true, false, false, true, true,
                                  false)), (String ((Ascii (false, false,
                                  false, false, false, true, false, false)),
                                  (String ((Ascii (true, false, false, true,
                                  false, true, true, false)), (String ((Ascii
                                  (false, false, true, false, true, true,
                                  true, false)), (String ((Ascii (true,
                                  false, true, false, false, true, true,
                                  false)), (String ((Ascii (true, false,
                                  true, true, false, true, true, false)),
                                  (String ((Ascii (true, true, false, false,
                                  true, true, true, false)),
                                  EmptyString)))))))))))))))))))))))))
                           | _ :: _ ->
                             sx_err (String ((Ascii (true, false, true,
                               false, false, true, true, false)), (String
                               ((Ascii (false, true, true, true, false, true,
                               true, false)), (String ((Ascii (true, true,
                               false, false, false, true, true, false)),
                               (String ((Ascii (true, true, true, true,
                               false, true, true, false)), (String ((Ascii
                               (false, false, true, false, false, true, true,
                               false)), (String ((Ascii (true, false, true,
                               false, false, true, true, false)),
                               EmptyString)))))))))))))
                        | _ ->
                          sx_err (String ((Ascii (true, false, true, false,
                            false, true, true, false)), (String ((Ascii
                            (false, true, true, true, false, true, true,
                            false)), (String ((Ascii (true, true, false,
                            false, false, true, true, false)), (String
                            ((Ascii (true, true, true, true, false, true,
                            true, false)), (String ((Ascii (false, false,
                            true, false, false, true, true, false)), (String
                            ((Ascii (true, false, true, false, false, true,
                            true, false)), EmptyString))))))))))))))
                  | _ ->
                    sx_err (String ((Ascii (true, false, true, false, false,
                      true, true, false)), (String ((Ascii (false, true,
                      true, true, false, true, true, false)), (String ((Ascii
                      (true, true, false, false, false, true, true, false)),
                      (String ((Ascii (true, true, true, true, false, true,
                      true, false)), (String ((Ascii (false, false, true,
                      false, false, true, true, false)), (String ((Ascii
                      (true, false, true, false, false, true, true, false)),
                      EmptyString))))))))))))))
            | _ ->
              sx_err (String ((Ascii (true, false, true, false, false, true,
                true, false)), (String ((Ascii (false, true, true, true,
                false, true, true, false)), (String ((Ascii (true, true,
                false, false, false, true, true, false)), (String ((Ascii
                (true, true, true, true, false, true, true, false)), (String
                ((Ascii (false, false, true, false, false, true, true,
                false)), (String ((Ascii (true, false, true, false, false,
                true, true, false)), EmptyString))))))))))))))
      | _ ->
        sx_err (String ((Ascii (true, false, true, false, false, true, true,
          false)), (String ((Ascii (false, true, true, true, false, true,
          true, false)), (String ((Ascii (true, true, false, false, false,
          true, true, false)), (String ((Ascii (true, true, true, true,
          false, true, true, false)), (String ((Ascii (false, false, true,
          false, false, true, true, false)), (String ((Ascii (true, false,
          true, false, false, true, true, false)), EmptyString))))))))))))))
| _ ->
  sx_err (String ((Ascii (true, false, true, false, false, true, true,
    false)), (String ((Ascii (false, true, true, true, false, true, true,
    false)), (String ((Ascii (true, true, false, false, false, true, true,
    false)), (String ((Ascii (true, true, true, true, false, true, true,
    false)), (String ((Ascii (false, false, true, false, false, true, true,
    false)), (String ((Ascii (true, false, true, false, false, true, true,
    false)), EmptyString))))))))))))

(** val run_raw : sx -> sx **)

let run_raw = function
| SL l ->
  (match l with
   | [] ->
     sx_err (String ((Ascii (false, true, false, false, true, true, true,
       false)), (String ((Ascii (true, false, false, false, false, true,
       true, false)), (String ((Ascii (true, true, true, false, true, true,
       true, false)), EmptyString))))))
   | s :: l0 ->
     (match s with
      | SN n0 ->
        (match l0 with
         | [] ->
           sx_err (String ((Ascii (false, true, false, false, true, true,
             true, false)), (String ((Ascii (true, false, false, false,
             false, true, true, false)), (String ((Ascii (true, true, true,
             false, true, true, true, false)), EmptyString))))))
         | s0 :: l1 ->
           (match s0 with
            | SB _ ->
              (match l1 with
               | [] ->
                 sx_err (String ((Ascii (false, true, false, false, true,
                   true, true, false)), (String ((Ascii (true, false, false,
                   false, false, true, true, false)), (String ((Ascii (true,
                   true, true, false, true, true, true, false)),
                   EmptyString))))))
               | s1 :: l2 ->
                 (match s1 with
                  | SB e ->
                    (match l2 with
                     | [] ->
                       sx_err (String ((Ascii (false, true, false, false,
                         true, true, true, false)), (String ((Ascii (true,
                         false, false, false, false, true, true, false)),
                         (String ((Ascii (true, true, true, false, true,
                         true, true, false)), EmptyString))))))
                     | s2 :: l3 ->
                       (match s2 with
                        | SL kvs ->
                          (match l3 with
                           | [] ->
                             (match items_sx kvs with
                              | Some l4 ->
                                sx_res0 sx_cell (enc_mode e (N.to_nat n0) l4)
                              | None ->
                                sx_err (String ((Ascii (false, true, false,
                                  false, true, true, true, false)), (String
                                  ((Ascii (true, false, false, false, false,
                                  true, true, false)), (String ((Ascii (true,
                                  true, true, false, true, true, true,
                                  false)), (String ((Ascii (false, false,
                                  false, false, false, true, false, false)),
                                  (String ((Ascii (true, false, false, true,
                                  false, true, true, false)), (String ((Ascii
                                  (false, false, true, false, true, true,
                                  true, false)), (String ((Ascii (true,
                                  false, true, false, false, true, true,
                                  false)), (String ((Ascii (true, false,
                                  true, true, false, true, true, false)),
                                  (String ((Ascii (true, true, false, false,
                                  true, true, true, false)),
                                  EmptyString)))))))))))))))))))
                           | _ :: _ ->
                             sx_err (String ((Ascii (false, true, false,
                               false, true, true, true, false)), (String
                               ((Ascii (true, false, false, false, false,
                               true, true, false)), (String ((Ascii (true,
                               true, true, false, true, true, true, false)),
                               EmptyString)))))))
                        | _ ->
                          sx_err (String ((Ascii (false, true, false, false,
                            true, true, true, false)), (String ((Ascii (true,
                            false, false, false, false, true, true, false)),
                            (String ((Ascii (true, true, true, false, true,
                            true, true, false)), EmptyString))))))))
                  | _ ->
                    sx_err (String ((Ascii (false, true, false, false, true,
                      true, true, false)), (String ((Ascii (true, false,
                      false, false, false, true, true, false)), (String
                      ((Ascii (true, true, true, false, true, true, true,
                      false)), EmptyString))))))))
            | _ ->
              sx_err (String ((Ascii (false, true, false, false, true, true,
                true, false)), (String ((Ascii (true, false, false, false,
                false, true, true, false)), (String ((Ascii (true, true,
                true, false, true, true, true, false)), EmptyString))))))))
      | _ ->
        sx_err (String ((Ascii (false, true, false, false, true, true, true,
          false)), (String ((Ascii (true, false, false, false, false, true,
          true, false)), (String ((Ascii (true, true, true, false, true,
          true, true, false)), EmptyString))))))))
| _ ->
  sx_err (String ((Ascii (false, true, false, false, true, true, true,
    false)), (String ((Ascii (true, false, false, false, false, true, true,
    false)), (String ((Ascii (true, true, true, false, true, true, true,
    false)), EmptyString))))))

(** val run_decode : sx -> sx **)

let run_decode = function
| SL l ->
  (match l with
   | [] ->
     sx_err (String ((Ascii (false, false, true, false, false, true, true,
       false)), (String ((Ascii (true, false, true, false, false, true, true,
       false)), (String ((Ascii (true, true, false, false, false, true, true,
       false)), (String ((Ascii (true, true, true, true, false, true, true,
       false)), (String ((Ascii (false, false, true, false, false, true,
       true, false)), (String ((Ascii (true, false, true, false, false, true,
       true, false)), EmptyString))))))))))))
   | s :: l0 ->
     (match s with
      | SN n0 ->
        (match l0 with
         | [] ->
           sx_err (String ((Ascii (false, false, true, false, false, true,
             true, false)), (String ((Ascii (true, false, true, false, false,
             true, true, false)), (String ((Ascii (true, true, false, false,
             false, true, true, false)), (String ((Ascii (true, true, true,
             true, false, true, true, false)), (String ((Ascii (false, false,
             true, false, false, true, true, false)), (String ((Ascii (true,
             false, true, false, false, true, true, false)),
             EmptyString))))))))))))
         | s0 :: l1 ->
           (match s0 with
            | SB e ->
              (match l1 with
               | [] ->
                 sx_err (String ((Ascii (false, false, true, false, false,
                   true, true, false)), (String ((Ascii (true, false, true,
                   false, false, true, true, false)), (String ((Ascii (true,
                   true, false, false, false, true, true, false)), (String
                   ((Ascii (true, true, true, true, false, true, true,
                   false)), (String ((Ascii (false, false, true, false,
                   false, true, true, false)), (String ((Ascii (true, false,
                   true, false, false, true, true, false)),
                   EmptyString))))))))))))
               | c :: l2 ->
                 (match l2 with
                  | [] ->
                    (match cell_sx c with
                     | Some c0 ->
                       sx_res0 sx_items (dec_mode e (N.to_nat n0) c0)
                     | None ->
                       sx_err (String ((Ascii (false, false, true, false,
                         false, true, true, false)), (String ((Ascii (true,
                         false, true, false, false, true, true, false)),
                         (String ((Ascii (true, true, false, false, false,
                         true, true, false)), (String ((Ascii (true, true,
                         true, true, false, true, true, false)), (String
                         ((Ascii (false, false, true, false, false, true,
                         true, false)), (String ((Ascii (true, false, true,
                         false, false, true, true, false)), (String ((Ascii
                         (false, false, false, false, false, true, false,
                         false)), (String ((Ascii (true, true, false, false,
                         false, true, true, false)), (String ((Ascii (true,
                         false, true, false, false, true, true, false)),
                         (String ((Ascii (false, false, true, true, false,
                         true, true, false)), (String ((Ascii (false, false,
                         true, true, false, true, true, false)),
                         EmptyString)))))))))))))))))))))))
                  | _ :: _ ->
                    sx_err (String ((Ascii (false, false, true, false, false,
                      true, true, false)), (String ((Ascii (true, false,
                      true, false, false, true, true, false)), (String
                      ((Ascii (true, true, false, false, false, true, true,
                      false)), (String ((Ascii (true, true, true, true,
                      false, true, true, false)), (String ((Ascii (false,
                      false, true, false, false, true, true, false)), (String
                      ((Ascii (true, false, true, false, false, true, true,
                      false)), EmptyString))))))))))))))
            | _ ->
              sx_err (String ((Ascii (false, false, true, false, false, true,
                true, false)), (String ((Ascii (true, false, true, false,
                false, true, true, false)), (String ((Ascii (true, true,
                false, false, false, true, true, false)), (String ((Ascii
                (true, true, true, true, false, true, true, false)), (String
                ((Ascii (false, false, true, false, false, true, true,
                false)), (String ((Ascii (true, false, true, false, false,
                true, true, false)), EmptyString))))))))))))))
      | _ ->
        sx_err (String ((Ascii (false, false, true, false, false, true, true,
          false)), (String ((Ascii (true, false, true, false, false, true,
          true, false)), (String ((Ascii (true, true, false, false, false,
          true, true, false)), (String ((Ascii (true, true, true, true,
          false, true, true, false)), (String ((Ascii (false, false, true,
          false, false, true, true, false)), (String ((Ascii (true, false,
          true, false, false, true, true, false)), EmptyString))))))))))))))
| _ ->
  sx_err (String ((Ascii (false, false, true, false, false, true, true,
    false)), (String ((Ascii (true, false, true, false, false, true, true,
    false)), (String ((Ascii (true, true, false, false, false, true, true,
    false)), (String ((Ascii (true, true, true, true, false, true, true,
    false)), (String ((Ascii (false, false, true, false, false, true, true,
    false)), (String ((Ascii (true, false, true, false, false, true, true,
    false)), EmptyString))))))))))))

(** val form_sx : sx -> form option **)

let form_sx = function
| SA s ->
  if eqb1 s (String ((Ascii (true, true, false, false, true, true, true,
       false)), EmptyString))
  then Some FShort
  else if eqb1 s (String ((Ascii (false, false, true, true, false, true,
            true, false)), EmptyString))
       then Some FLong
       else if eqb1 s (String ((Ascii (true, false, false, false, false,
                 true, true, false)), (String ((Ascii (false, false, false,
                 false, true, true, false, false)), EmptyString))))
            then Some (FSame false)
            else if eqb1 s (String ((Ascii (true, false, false, false, false,
                      true, true, false)), (String ((Ascii (true, false,
                      false, false, true, true, false, false)),
                      EmptyString))))
                 then Some (FSame true)
                 else None
| _ -> None

(** val apt_sx : sx -> n apt option **)

let rec apt_sx = function
| SL l0 ->
  (match l0 with
   | [] -> None
   | s :: l1 ->
     (match s with
      | SA tag ->
        (match l1 with
         | [] -> None
         | f :: l2 ->
           (match l2 with
            | [] -> None
            | s0 :: l3 ->
              (match s0 with
               | SBits lbl ->
                 (match l3 with
                  | [] -> None
                  | l :: l4 ->
                    (match l with
                     | SN v ->
                       (match l4 with
                        | [] ->
                          if eqb1 tag (String ((Ascii (false, false, true,
                               true, false, true, true, false)), EmptyString))
                          then (match form_sx f with
                                | Some f0 -> Some (ALeaf (f0, lbl, v))
                                | None -> None)
                          else None
                        | r :: l5 ->
                          (match l5 with
                           | [] ->
                             if eqb1 tag (String ((Ascii (false, true, true,
                                  false, false, true, true, false)),
                                  EmptyString))
                             then (match form_sx f with
                                   | Some f0 ->
                                     (match apt_sx l with
                                      | Some l6 ->
                                        (match apt_sx r with
                                         | Some r0 ->
                                           Some (AFork (f0, lbl, l6, r0))
                                         | None -> None)
                                      | None -> None)
                                   | None -> None)
                             else None
                           | _ :: _ -> None))
                     | SZ _ ->
                       (match l4 with
                        | [] -> None
                        | r :: l5 ->
                          (match l5 with
                           | [] ->
                             if eqb1 tag (String ((Ascii (false, true, true,
                                  false, false, true, true, false)),
                                  EmptyString))
                             then (match form_sx f with
                                   | Some f0 ->
                                     (match apt_sx l with
                                      | Some l6 ->
                                        (match apt_sx r with
                                         | Some r0 ->
                                           Some (AFork (f0, lbl, l6, r0))
                                         | None -> None)
                                      | None -> None)
                                   | None -> None)
                             else None
                           | _ :: _ -> None))
                     | SB _ ->
                       (match l4 with
                        | [] -> None
                        | r :: l5 ->
                          (match l5 with
                           | [] ->
                             if eqb1 tag (String ((Ascii (false, true, true,
                                  false, false, true, true, false)),
                                  EmptyString))
                             then (match form_sx f with
                                   | Some f0 ->
                                     (match apt_sx l with
                                      | Some l6 ->
                                        (match apt_sx r with
                                         | Some r0 ->
                                           Some (AFork (f0, lbl, l6, r0))
                                         | None -> None)
                                      | None -> None)
                                   | None -> None)
                             else None
                           | _ :: _ -> None))
                     | SA _ ->
                       (match l4 with
                        | [] -> None
                        | r :: l5 ->
                          (match l5 with
                           | [] ->
                             if eqb1 tag (String ((Ascii (false, true, true,
                                  false, false, true, true, false)),
                                  EmptyString))
                             then (match form_sx f with
                                   | Some f0 ->
                                     (match apt_sx l with
                                      | Some l6 ->
                                        (match apt_sx r with
                                         | Some r0 ->
                                           Some (AFork (f0, lbl, l6, r0))
                                         | None -> None)
                                      | None -> None)
                                   | None -> None)
                             else None
                           | _ :: _ -> None))
                     | _ ->
                       (match l4 with
                        | [] -> None
                        | r :: l6 ->
                          (match l6 with
                           | [] ->
                             if eqb1 tag (String ((Ascii (false, true, true,
                                  false, false, true, true, false)),
                                  EmptyString))
                             then (match form_sx f with
                                   | Some f0 ->
                                     (match apt_sx l with
                                      | Some l5 ->
                                        (match apt_sx r with
                                         | Some r0 ->
                                           Some (AFork (f0, lbl, l5, r0))
                                         | None -> None)
                                      | None -> None)
                                   | None -> None)
                             else None
                           | _ :: _ -> None))))
               | _ -> None)))
      | _ -> None))
| _ -> None

(** val run_cells : sx -> sx **)

let run_cells = function
| SL l ->
  (match l with
   | [] ->
     sx_err (String ((Ascii (true, true, false, false, false, true, true,
       false)), (String ((Ascii (true, false, true, false, false, true, true,
       false)), (String ((Ascii (false, false, true, true, false, true, true,
       false)), (String ((Ascii (false, false, true, true, false, true, true,
       false)), (String ((Ascii (true, true, false, false, true, true, true,
       false)), EmptyString))))))))))
   | s :: l0 ->
     (match s with
      | SN n0 ->
        (match l0 with
         | [] ->
           sx_err (String ((Ascii (true, true, false, false, false, true,
             true, false)), (String ((Ascii (true, false, true, false, false,
             true, true, false)), (String ((Ascii (false, false, true, true,
             false, true, true, false)), (String ((Ascii (false, false, true,
             true, false, true, true, false)), (String ((Ascii (true, true,
             false, false, true, true, true, false)), EmptyString))))))))))
         | t :: l1 ->
           (match l1 with
            | [] ->
              (match apt_sx t with
               | Some t0 ->
                 sx_res0 sx_cell (cells_of venc_val (N.to_nat n0) t0)
               | None ->
                 sx_err (String ((Ascii (true, true, false, false, false,
                   true, true, false)), (String ((Ascii (true, false, true,
                   false, false, true, true, false)), (String ((Ascii (false,
                   false, true, true, false, true, true, false)), (String
                   ((Ascii (false, false, true, true, false, true, true,
                   false)), (String ((Ascii (true, true, false, false, true,
                   true, true, false)), (String ((Ascii (false, false, false,
                   false, false, true, false, false)), (String ((Ascii
                   (false, false, true, false, true, true, true, false)),
                   (String ((Ascii (false, true, false, false, true, true,
                   true, false)), (String ((Ascii (true, false, true, false,
                   false, true, true, false)), (String ((Ascii (true, false,
                   true, false, false, true, true, false)),
                   EmptyString)))))))))))))))))))))
            | _ :: _ ->
              sx_err (String ((Ascii (true, true, false, false, false, true,
                true, false)), (String ((Ascii (true, false, true, false,
                false, true, true, false)), (String ((Ascii (false, false,
                true, true, false, true, true, false)), (String ((Ascii
                (false, false, true, true, false, true, true, false)),
                (String ((Ascii (true, true, false, false, true, true, true,
                false)), EmptyString))))))))))))
      | _ ->
        sx_err (String ((Ascii (true, true, false, false, false, true, true,
          false)), (String ((Ascii (true, false, true, false, false, true,
          true, false)), (String ((Ascii (false, false, true, true, false,
          true, true, false)), (String ((Ascii (false, false, true, true,
          false, true, true, false)), (String ((Ascii (true, true, false,
          false, true, true, true, false)), EmptyString))))))))))))
| _ ->
  sx_err (String ((Ascii (true, true, false, false, false, true, true,
    false)), (String ((Ascii (true, false, true, false, false, true, true,
    false)), (String ((Ascii (false, false, true, true, false, true, true,
    false)), (String ((Ascii (false, false, true, true, false, true, true,
    false)), (String ((Ascii (true, true, false, false, true, true, true,
    false)), EmptyString))))))))))

(** val run_oplist :
    bool -> (bits * n) list -> sx list -> sx list * (bits * n) list **)

let rec run_oplist sgn m = function
| [] -> ([], m)
| o :: t ->
  (match o with
   | SL l ->
     (match l with
      | [] ->
        let r =
          sx_err (String ((Ascii (true, true, true, true, false, true, true,
            false)), (String ((Ascii (false, false, false, false, true, true,
            true, false)), EmptyString))))
        in
        let (rs, mf) = run_oplist sgn m t in ((r :: rs), mf)
      | s :: l0 ->
        (match s with
         | SA nm ->
           (match l0 with
            | [] ->
              let r =
                sx_err (String ((Ascii (true, true, true, true, false, true,
                  true, false)), (String ((Ascii (false, false, false, false,
                  true, true, true, false)), EmptyString))))
              in
              let (rs, mf) = run_oplist sgn m t in ((r :: rs), mf)
            | s0 :: l1 ->
              (match s0 with
               | SBits k0 ->
                 (match l1 with
                  | [] ->
                    if eqb1 nm (String ((Ascii (true, true, true, false,
                         false, true, true, false)), (String ((Ascii (true,
                         false, true, false, false, true, true, false)),
                         (String ((Ascii (false, false, true, false, true,
                         true, true, false)), EmptyString))))))
                    then let r =
                           match get bits_eqb0 k0 m with
                           | Some v -> SL ((SN v) :: [])
                           | None ->
                             SA (String ((Ascii (false, true, true, true,
                               false, true, true, false)), (String ((Ascii
                               (true, true, true, true, false, true, true,
                               false)), (String ((Ascii (false, true, true,
                               true, false, true, true, false)), (String
                               ((Ascii (true, false, true, false, false,
                               true, true, false)), EmptyString))))))))
                         in
                         let (rs, mf) = run_oplist sgn m t in ((r :: rs), mf)
                    else let r =
                           sx_err (String ((Ascii (true, true, true, true,
                             false, true, true, false)), (String ((Ascii
                             (false, false, false, false, true, true, true,
                             false)), EmptyString))))
                         in
                         let (rs, mf) = run_oplist sgn m t in ((r :: rs), mf)
                  | s1 :: l2 ->
                    (match s1 with
                     | SN v ->
                       (match l2 with
                        | [] ->
                          if eqb1 nm (String ((Ascii (false, false, false,
                               false, true, true, true, false)), (String
                               ((Ascii (true, false, true, false, true, true,
                               true, false)), (String ((Ascii (false, false,
                               true, false, true, true, true, false)),
                               EmptyString))))))
                          then let r = SA (String ((Ascii (true, true, true,
                                 true, false, true, true, false)), (String
                                 ((Ascii (true, true, false, true, false,
                                 true, true, false)), EmptyString))))
                               in
                               let m' = put bits_eqb0 (klt_of sgn) k0 v m in
                               let (rs, mf) = run_oplist sgn m' t in
                               ((r :: rs), mf)
                          else let r =
                                 sx_err (String ((Ascii (true, true, true,
                                   true, false, true, true, false)), (String
                                   ((Ascii (false, false, false, false, true,
                                   true, true, false)), EmptyString))))
                               in
                               let (rs, mf) = run_oplist sgn m t in
                               ((r :: rs), mf)
                        | _ :: _ ->
                          let r =
                            sx_err (String ((Ascii (true, true, true, true,
                              false, true, true, false)), (String ((Ascii
                              (false, false, false, false, true, true, true,
                              false)), EmptyString))))
                          in
                          let (rs, mf) = run_oplist sgn m t in ((r :: rs), mf))
                     | _ ->
                       let r =
                         sx_err (String ((Ascii (true, true, true, true,
                           false, true, true, false)), (String ((Ascii
                           (false, false, false, false, true, true, true,
                           false)), EmptyString))))
                       in
                       let (rs, mf) = run_oplist sgn m t in ((r :: rs), mf)))
               | _ ->
                 let r =
                   sx_err (String ((Ascii (true, true, true, true, false,
                     true, true, false)), (String ((Ascii (false, false,
                     false, false, true, true, true, false)), EmptyString))))
                 in
                 let (rs, mf) = run_oplist sgn m t in ((r :: rs), mf)))
         | _ ->
           let r =
             sx_err (String ((Ascii (true, true, true, true, false, true,
               true, false)), (String ((Ascii (false, false, false, false,
               true, true, true, false)), EmptyString))))
           in
           let (rs, mf) = run_oplist sgn m t in ((r :: rs), mf)))
   | _ ->
     let r =
       sx_err (String ((Ascii (true, true, true, true, false, true, true,
         false)), (String ((Ascii (false, false, false, false, true, true,
         true, false)), EmptyString))))
     in
     let (rs, mf) = run_oplist sgn m t in ((r :: rs), mf))

(** val run_ops0 : sx -> sx **)

let run_ops0 = function
| SL l ->
  (match l with
   | [] ->
     sx_err (String ((Ascii (true, true, true, true, false, true, true,
       false)), (String ((Ascii (false, false, false, false, true, true,
       true, false)), (String ((Ascii (true, true, false, false, true, true,
       true, false)), EmptyString))))))
   | s :: l0 ->
     (match s with
      | SN n0 ->
        (match l0 with
         | [] ->
           sx_err (String ((Ascii (true, true, true, true, false, true, true,
             false)), (String ((Ascii (false, false, false, false, true,
             true, true, false)), (String ((Ascii (true, true, false, false,
             true, true, true, false)), EmptyString))))))
         | s0 :: l1 ->
           (match s0 with
            | SB sgn ->
              (match l1 with
               | [] ->
                 sx_err (String ((Ascii (true, true, true, true, false, true,
                   true, false)), (String ((Ascii (false, false, false,
                   false, true, true, true, false)), (String ((Ascii (true,
                   true, false, false, true, true, true, false)),
                   EmptyString))))))
               | c :: l2 ->
                 (match l2 with
                  | [] ->
                    sx_err (String ((Ascii (true, true, true, true, false,
                      true, true, false)), (String ((Ascii (false, false,
                      false, false, true, true, true, false)), (String
                      ((Ascii (true, true, false, false, true, true, true,
                      false)), EmptyString))))))
                  | s1 :: l3 ->
                    (match s1 with
                     | SL ops ->
                       (match l3 with
                        | [] ->
                          (match cell_sx c with
                           | Some c0 ->
                             (match decode_e vdec_val (N.to_nat n0) c0 with
                              | Ok m ->
                                let (rs, mf) = run_oplist sgn m ops in
                                SL
                                (app rs
                                  ((sx_items mf) :: ((sx_res0 sx_cell
                                                       (encode_e venc_val
                                                         (N.to_nat n0) mf)) :: [])))
                              | _ ->
                                SA (String ((Ascii (true, false, true, false,
                                  false, true, true, false)), (String ((Ascii
                                  (false, true, false, false, true, true,
                                  true, false)), (String ((Ascii (false,
                                  true, false, false, true, true, true,
                                  false)), EmptyString)))))))
                           | None ->
                             sx_err (String ((Ascii (true, true, true, true,
                               false, true, true, false)), (String ((Ascii
                               (false, false, false, false, true, true, true,
                               false)), (String ((Ascii (true, true, false,
                               false, true, true, true, false)), (String
                               ((Ascii (false, false, false, false, false,
                               true, false, false)), (String ((Ascii (true,
                               true, false, false, false, true, true,
                               false)), (String ((Ascii (true, false, true,
                               false, false, true, true, false)), (String
                               ((Ascii (false, false, true, true, false,
                               true, true, false)), (String ((Ascii (false,
                               false, true, true, false, true, true, false)),
                               EmptyString)))))))))))))))))
                        | _ :: _ ->
                          sx_err (String ((Ascii (true, true, true, true,
                            false, true, true, false)), (String ((Ascii
                            (false, false, false, false, true, true, true,
                            false)), (String ((Ascii (true, true, false,
                            false, true, true, true, false)),
                            EmptyString)))))))
                     | _ ->
                       sx_err (String ((Ascii (true, true, true, true, false,
                         true, true, false)), (String ((Ascii (false, false,
                         false, false, true, true, true, false)), (String
                         ((Ascii (true, true, false, false, true, true, true,
                         false)), EmptyString)))))))))
            | _ ->
              sx_err (String ((Ascii (true, true, true, true, false, true,
                true, false)), (String ((Ascii (false, false, false, false,
                true, true, true, false)), (String ((Ascii (true, true,
                false, false, true, true, true, false)), EmptyString))))))))
      | _ ->
        sx_err (String ((Ascii (true, true, true, true, false, true, true,
          false)), (String ((Ascii (false, false, false, false, true, true,
          true, false)), (String ((Ascii (true, true, false, false, true,
          true, true, false)), EmptyString))))))))
| _ ->
  sx_err (String ((Ascii (true, true, true, true, false, true, true, false)),
    (String ((Ascii (false, false, false, false, true, true, true, false)),
    (String ((Ascii (true, true, false, false, true, true, true, false)),
    EmptyString))))))

(** val addr_items : sx list -> (bits * n) list option **)

let rec addr_items = function
| [] -> Some []
| s :: t ->
  (match s with
   | SL l0 ->
     (match l0 with
      | [] -> None
      | s0 :: l1 ->
        (match s0 with
         | SZ wc ->
           (match l1 with
            | [] -> None
            | s1 :: l2 ->
              (match s1 with
               | SBytes a ->
                 (match l2 with
                  | [] -> None
                  | s2 :: l3 ->
                    (match s2 with
                     | SN v ->
                       (match l3 with
                        | [] ->
                          (match addr_items t with
                           | Some m -> Some (((addr_key (wc, a)), v) :: m)
                           | None -> None)
                        | _ :: _ -> None)
                     | _ -> None))
               | _ -> None))
         | _ -> None))
   | _ -> None)

(** val sx_addr_item : (bits * n) -> sx **)

let sx_addr_item kv =
  let k0 = addr_unkey (fst kv) in
  SL ((SZ (fst k0)) :: ((SBytes (snd k0)) :: ((SN (snd kv)) :: [])))

(** val run_addr : sx -> sx **)

let run_addr = function
| SL l0 ->
  (match l0 with
   | [] ->
     sx_err (String ((Ascii (true, false, false, false, false, true, true,
       false)), (String ((Ascii (false, false, true, false, false, true,
       true, false)), (String ((Ascii (false, false, true, false, false,
       true, true, false)), (String ((Ascii (false, true, false, false, true,
       true, true, false)), EmptyString))))))))
   | s :: l1 ->
     (match s with
      | SL l ->
        (match l1 with
         | [] ->
           (match addr_items l with
            | Some l2 ->
              (match encode_e venc_val (S (S (S (S (S (S (S (S (S (S (S (S (S
                       (S (S (S (S (S (S (S (S (S (S (S (S (S (S (S (S (S (S
                       (S (S (S (S (S (S (S (S (S (S (S (S (S (S (S (S (S (S
                       (S (S (S (S (S (S (S (S (S (S (S (S (S (S (S (S (S (S
                       (S (S (S (S (S (S (S (S (S (S (S (S (S (S (S (S (S (S
                       (S (S (S (S (S (S (S (S (S (S (S (S (S (S (S (S (S (S
                       (S (S (S (S (S (S (S (S (S (S (S (S (S (S (S (S (S (S
                       (S (S (S (S (S (S (S (S (S (S (S (S (S (S (S (S (S (S
                       (S (S (S (S (S (S (S (S (S (S (S (S (S (S (S (S (S (S
                       (S (S (S (S (S (S (S (S (S (S (S (S (S (S (S (S (S (S
                       (S (S (S (S (S (S (S (S (S (S (S (S (S (S (S (S (S (S
                       (S (S (S (S (S (S (S (S (S (S (S (S (S (S (S (S (S (S
                       (S (S (S (S (S (S (S (S (S (S (S (S (S (S (S (S (S (S
                       (S (S (S (S (S (S (S (S (S (S (S (S (S (S (S (S (S (S
                       (S (S (S (S (S (S (S (S (S (S (S (S (S (S (S (S (S (S
                       (S (S (S (S (S (S (S (S (S (S (S (S (S (S (S (S (S (S
                       (S (S (S (S (S
                       O))))))))))))))))))))))))))))))))))))))))))))))))))))))))))))))))))))))))))))))))))))))))))))))))))))))))))))))))))))))))))))))))))))))))))))))))))))))))))))))))))))))))))))))))))))))))))))))))))))))))))))))))))))))))))))))))))))))))))))))))))))))))))))))))))))))))))))))))))))))))))))))))
                       (puts bits_eqb0 bits_ltb l2 []) with
               | Ok c ->
                 SL
                   ((sx_cell c) :: ((sx_res0 (fun m -> SL
                                      (map sx_addr_item m))
                                      (decode_e vdec_val (S (S (S (S (S (S (S
                                        (S (S (S (S (S (S (S (S (S (S (S (S
                                        (S (S (S (S (S (S (S (S (S (S (S (S
                                        (S (S (S (S (S (S (S (S (S (S (S (S
                                        (S (S (S (S (S (S (S (S (S (S (S (S
                                        (S (S (S (S (S (S (S (S (S (S (S (S
                                        (S (S (S (S (S (S (S (S (S (S (S (S
                                        (S (S (S (S (S (S (S (S (S (S (S (S
                                        (S (S (S (S (S (S (S (S (S (S (S (S
                                        (S (S (S (S (S (S (S (S (S (S (S (S
                                        (S (S (S (S (S (S (S (S (S (S (S (S
                                        (S (S (S (S (S (S (S (S (S (S (S (S
                                        (S (S (S (S (S (S (S (S (S (S (S (S
                                        (S (S (S (S (S (S (S (S (S (S (S (S
                                        (S (S (S (S (S (S (S (S (S (S (S (S
                                        (S (S (S (S (S (S (S (S (S (S (S (S
                                        (S (S (S (S (S (S (S (S (S (S (S (S
                                        (S (S (S (S (S (S (S (S (S (S (S (S
                                        (S (S (S (S (S (S (S (S (S (S (S (S
                                        (S (S (S (S (S (S (S (S (S (S (S (S
                                        (S (S (S (S (S (S (S (S (S (S (S (S
                                        (S (S (S (S (S (S (S (S (S (S (S (S
                                        (S (S (S (S (S (S (S (S (S (S (S (S
                                        (S (S (S (S (S (S (S (S (S (S (S (S
                                        (S (S (S (S (S
                                        O))))))))))))))))))))))))))))))))))))))))))))))))))))))))))))))))))))))))))))))))))))))))))))))))))))))))))))))))))))))))))))))))))))))))))))))))))))))))))))))))))))))))))))))))))))))))))))))))))))))))))))))))))))))))))))))))))))))))))))))))))))))))))))))))))))))))))))))))))))))))))))))))
                                        c)) :: []))
               | _ ->
                 SA (String ((Ascii (true, false, true, false, false, true,
                   true, false)), (String ((Ascii (false, true, false, false,
                   true, true, true, false)), (String ((Ascii (false, true,
                   false, false, true, true, true, false)), EmptyString)))))))
            | None ->
              sx_err (String ((Ascii (true, false, false, false, false, true,
                true, false)), (String ((Ascii (false, false, true, false,
                false, true, true, false)), (String ((Ascii (false, false,
                true, false, false, true, true, false)), (String ((Ascii
                (false, true, false, false, true, true, true, false)),
                (String ((Ascii (false, false, false, false, false, true,
                false, false)), (String ((Ascii (true, false, false, true,
                false, true, true, false)), (String ((Ascii (false, false,
                true, false, true, true, true, false)), (String ((Ascii
                (true, false, true, false, false, true, true, false)),
                (String ((Ascii (true, false, true, true, false, true, true,
                false)), (String ((Ascii (true, true, false, false, true,
                true, true, false)), EmptyString)))))))))))))))))))))
         | _ :: _ ->
           sx_err (String ((Ascii (true, false, false, false, false, true,
             true, false)), (String ((Ascii (false, false, true, false,
             false, true, true, false)), (String ((Ascii (false, false, true,
             false, false, true, true, false)), (String ((Ascii (false, true,
             false, false, true, true, true, false)), EmptyString)))))))))
      | _ ->
        sx_err (String ((Ascii (true, false, false, false, false, true, true,
          false)), (String ((Ascii (false, false, true, false, false, true,
          true, false)), (String ((Ascii (false, false, true, false, false,
          true, true, false)), (String ((Ascii (false, true, false, false,
          true, true, true, false)), EmptyString))))))))))
| _ ->
  sx_err (String ((Ascii (true, false, false, false, false, true, true,
    false)), (String ((Ascii (false, false, true, false, false, true, true,
    false)), (String ((Ascii (false, false, true, false, false, true, true,
    false)), (String ((Ascii (false, true, false, false, true, true, true,
    false)), EmptyString))))))))

type strategy =
| BestPing
| FirstWorking
| OtherStrategy

type conn = { c_alive : bool; c_seqno : n; c_rtt : z }

(** val two32 : n **)

let two32 =
  Npos (XO (XO (XO (XO (XO (XO (XO (XO (XO (XO (XO (XO (XO (XO (XO (XO (XO
    (XO (XO (XO (XO (XO (XO (XO (XO (XO (XO (XO (XO (XO (XO (XO
    XH))))))))))))))))))))))))))))))))

(** val u32 : n -> n **)

let u32 n0 =
  N.modulo n0 two32

(** val seq32 : conn -> n **)

let seq32 c =
  u32 c.c_seqno

(** val max_step : n -> conn -> n **)

let max_step m c =
  if N.ltb m (seq32 c) then seq32 c else m

(** val max_seqno : conn list -> n **)

let max_seqno cs =
  fold_left max_step cs N0

(** val current_go : n -> conn -> bool **)

let current_go maxs c =
  N.leb maxs (N.add (seq32 c) (Npos XH))

(** val usable_go : n -> conn -> bool **)

let usable_go maxs c =
  (&&) c.c_alive (current_go maxs c)

(** val find_first_working : n -> conn list -> nat -> nat option **)

let rec find_first_working maxs cs i =
  match cs with
  | [] -> None
  | c :: t ->
    if usable_go maxs c then Some i else find_first_working maxs t (S i)

(** val better : nat -> conn -> (nat * z) option -> (nat * z) option **)

let better i c best0 = match best0 with
| Some p ->
  let (_, r) = p in if Z.ltb c.c_rtt r then Some (i, c.c_rtt) else best0
| None -> Some (i, c.c_rtt)

(** val find_best_ping :
    n -> conn list -> nat -> (nat * z) option -> (nat * z) option **)

let rec find_best_ping maxs cs i best0 =
  match cs with
  | [] -> best0
  | c :: t ->
    find_best_ping maxs t (S i)
      (if usable_go maxs c then better i c best0 else best0)

(** val update_best : strategy -> conn list -> nat option -> nat option **)

let update_best st cs prev =
  match cs with
  | [] -> prev
  | _ :: _ ->
    let m = max_seqno cs in
    (match st with
     | BestPing ->
       (match find_best_ping m cs O None with
        | Some p -> let (i, _) = p in Some i
        | None -> prev)
     | FirstWorking ->
       (match find_first_working m cs O with
        | Some i -> Some i
        | None -> prev)
     | OtherStrategy -> prev)

type msg = nat * n

type agent =
| ARun
| AW of nat

type wres =
| ROk
| RTimeout
| RCancel

type wait_pc =
| WNew
| WSubL
| WWait
| WUnsub of wres
| WDone of wres
| WPanicked

type run_pc =
| RIdle
| RWantR of msg
| RNotify of msg * bool * nat list
| RUpd

(** val upd_cap : nat **)

let upd_cap =
  S (S (S (S (S (S (S (S (S (S O)))))))))

type state = { head : (nat -> n); pend : msg list; updq : msg list;
               best : nat option; readers : nat; writer : agent option;
               wl : (n * nat) list; next_id : n; rpc : run_pc;
               wpc : (nat -> wait_pc); wid : (nat -> n);
               wch : (nat -> msg option); wgot : (nat -> msg option);
               woff : (nat -> msg list); log : msg list }

(** val set_head : state -> (nat -> n) -> state **)

let set_head s v =
  { head = v; pend = s.pend; updq = s.updq; best = s.best; readers =
    s.readers; writer = s.writer; wl = s.wl; next_id = s.next_id; rpc =
    s.rpc; wpc = s.wpc; wid = s.wid; wch = s.wch; wgot = s.wgot; woff =
    s.woff; log = s.log }

(** val set_pend : state -> msg list -> state **)

let set_pend s v =
  { head = s.head; pend = v; updq = s.updq; best = s.best; readers =
    s.readers; writer = s.writer; wl = s.wl; next_id = s.next_id; rpc =
    s.rpc; wpc = s.wpc; wid = s.wid; wch = s.wch; wgot = s.wgot; woff =
    s.woff; log = s.log }

(** val set_updq : state -> msg list -> state **)

let set_updq s v =
  { head = s.head; pend = s.pend; updq = v; best = s.best; readers =
    s.readers; writer = s.writer; wl = s.wl; next_id = s.next_id; rpc =
    s.rpc; wpc = s.wpc; wid = s.wid; wch = s.wch; wgot = s.wgot; woff =
    s.woff; log = s.log }

(** val set_best : state -> nat option -> state **)

let set_best s v =
  { head = s.head; pend = s.pend; updq = s.updq; best = v; readers =
    s.readers; writer = s.writer; wl = s.wl; next_id = s.next_id; rpc =
    s.rpc; wpc = s.wpc; wid = s.wid; wch = s.wch; wgot = s.wgot; woff =
    s.woff; log = s.log }

(** val set_readers : state -> nat -> state **)

let set_readers s v =
  { head = s.head; pend = s.pend; updq = s.updq; best = s.best; readers = v;
    writer = s.writer; wl = s.wl; next_id = s.next_id; rpc = s.rpc; wpc =
    s.wpc; wid = s.wid; wch = s.wch; wgot = s.wgot; woff = s.woff; log =
    s.log }

(** val set_writer : state -> agent option -> state **)

let set_writer s v =
  { head = s.head; pend = s.pend; updq = s.updq; best = s.best; readers =
    s.readers; writer = v; wl = s.wl; next_id = s.next_id; rpc = s.rpc; wpc =
    s.wpc; wid = s.wid; wch = s.wch; wgot = s.wgot; woff = s.woff; log =
    s.log }

(** val set_wl : state -> (n * nat) list -> state **)

let set_wl s v =
  { head = s.head; pend = s.pend; updq = s.updq; best = s.best; readers =
    s.readers; writer = s.writer; wl = v; next_id = s.next_id; rpc = s.rpc;
    wpc = s.wpc; wid = s.wid; wch = s.wch; wgot = s.wgot; woff = s.woff;
    log = s.log }

(** val set_next_id : state -> n -> state **)

let set_next_id s v =
  { head = s.head; pend = s.pend; updq = s.updq; best = s.best; readers =
    s.readers; writer = s.writer; wl = s.wl; next_id = v; rpc = s.rpc; wpc =
    s.wpc; wid = s.wid; wch = s.wch; wgot = s.wgot; woff = s.woff; log =
    s.log }

(** val set_rpc : state -> run_pc -> state **)

let set_rpc s v =
  { head = s.head; pend = s.pend; updq = s.updq; best = s.best; readers =
    s.readers; writer = s.writer; wl = s.wl; next_id = s.next_id; rpc = v;
    wpc = s.wpc; wid = s.wid; wch = s.wch; wgot = s.wgot; woff = s.woff;
    log = s.log }

(** val set_wpc : state -> (nat -> wait_pc) -> state **)

let set_wpc s v =
  { head = s.head; pend = s.pend; updq = s.updq; best = s.best; readers =
    s.readers; writer = s.writer; wl = s.wl; next_id = s.next_id; rpc =
    s.rpc; wpc = v; wid = s.wid; wch = s.wch; wgot = s.wgot; woff = s.woff;
    log = s.log }

(** val set_wid : state -> (nat -> n) -> state **)

let set_wid s v =
  { head = s.head; pend = s.pend; updq = s.updq; best = s.best; readers =
    s.readers; writer = s.writer; wl = s.wl; next_id = s.next_id; rpc =
    s.rpc; wpc = s.wpc; wid = v; wch = s.wch; wgot = s.wgot; woff = s.woff;
    log = s.log }

(** val set_wch : state -> (nat -> msg option) -> state **)

let set_wch s v =
  { head = s.head; pend = s.pend; updq = s.updq; best = s.best; readers =
    s.readers; writer = s.writer; wl = s.wl; next_id = s.next_id; rpc =
    s.rpc; wpc = s.wpc; wid = s.wid; wch = v; wgot = s.wgot; woff = s.woff;
    log = s.log }

(** val set_wgot : state -> (nat -> msg option) -> state **)

let set_wgot s v =
  { head = s.head; pend = s.pend; updq = s.updq; best = s.best; readers =
    s.readers; writer = s.writer; wl = s.wl; next_id = s.next_id; rpc =
    s.rpc; wpc = s.wpc; wid = s.wid; wch = s.wch; wgot = v; woff = s.woff;
    log = s.log }

(** val set_woff : state -> (nat -> msg list) -> state **)

let set_woff s v =
  { head = s.head; pend = s.pend; updq = s.updq; best = s.best; readers =
    s.readers; writer = s.writer; wl = s.wl; next_id = s.next_id; rpc =
    s.rpc; wpc = s.wpc; wid = s.wid; wch = s.wch; wgot = s.wgot; woff = v;
    log = s.log }

(** val set_log : state -> msg list -> state **)

let set_log s v =
  { head = s.head; pend = s.pend; updq = s.updq; best = s.best; readers =
    s.readers; writer = s.writer; wl = s.wl; next_id = s.next_id; rpc =
    s.rpc; wpc = s.wpc; wid = s.wid; wch = s.wch; wgot = s.wgot; woff =
    s.woff; log = v }

(** val fupd : (nat -> 'a1) -> nat -> 'a1 -> nat -> 'a1 **)

let fupd f i v j =
  if Nat.eqb j i then v else f j

(** val remove_nth : nat -> 'a1 list -> 'a1 list **)

let rec remove_nth k0 = function
| [] -> []
| x :: t -> (match k0 with
             | O -> t
             | S k' -> x :: (remove_nth k' t))

type label =
| LSetHead of nat * n
| LPublish of nat
| LTake
| LRLock of nat list
| LSend
| LRUnlock
| LTick
| LUpdDone of (bool * z) list
| LSubLock of nat
| LSubBody of nat
| LRecv of nat
| LLeave of nat * wres
| LUnsub of nat

(** val lock_free : state -> bool **)

let lock_free s =
  (&&) (Nat.eqb s.readers O)
    (match s.writer with
     | Some _ -> false
     | None -> true)

(** val is_writer : state -> agent -> bool **)

let is_writer s a =
  match s.writer with
  | Some a0 ->
    (match a0 with
     | ARun -> (match a with
                | ARun -> true
                | AW _ -> false)
     | AW w -> (match a with
                | ARun -> false
                | AW w' -> Nat.eqb w w'))
  | None -> false

(** val mem : nat -> nat list -> bool **)

let mem x l =
  existsb (Nat.eqb x) l

(** val is_order : nat list -> state -> bool **)

let is_order order s =
  let chans = map snd s.wl in
  (&&)
    ((&&) (Nat.eqb (length order) (length chans))
      (forallb (fun w -> mem w chans) order))
    (forallb (fun w -> mem w order) chans)

(** val same_best : state -> nat -> bool **)

let same_best s c =
  match s.best with
  | Some b -> Nat.eqb b c
  | None -> false

(** val newer : msg option -> msg -> msg **)

let newer old u =
  match old with
  | Some m -> if N.ltb (snd u) (snd m) then m else u
  | None -> u

(** val mk_conns : nat -> (nat -> n) -> (bool * z) list -> conn list **)

let mk_conns nconns heads obs0 =
  map (fun i ->
    let o = nth i obs0 (false, Z0) in
    { c_alive = (fst o); c_seqno = (heads i); c_rtt = (snd o) })
    (seq O nconns)

(** val step0 :
    strategy -> nat -> (nat -> n) -> state -> label -> state option **)

let step0 strat nconns tgt s = function
| LSetHead (c, h) ->
  if N.ltb (s.head c) h
  then Some
         (set_pend (set_head s (fupd s.head c h)) (app s.pend ((c, h) :: [])))
  else Some s
| LPublish k0 ->
  (match nth_error s.pend k0 with
   | Some m ->
     if Nat.ltb (length s.updq) upd_cap
     then Some
            (set_pend (set_updq s (app s.updq (m :: [])))
              (remove_nth k0 s.pend))
     else None
   | None -> None)
| LTake ->
  (match s.rpc with
   | RIdle ->
     (match s.updq with
      | [] -> None
      | u :: rest -> Some (set_rpc (set_updq s rest) (RWantR u)))
   | _ -> None)
| LRLock order ->
  (match s.rpc with
   | RWantR u ->
     (match s.writer with
      | Some _ -> None
      | None ->
        let s1 = set_readers s (S s.readers) in
        if same_best s (fst u)
        then if is_order order s
             then Some
                    (set_log (set_rpc s1 (RNotify (u, true, order)))
                      (app s.log (u :: [])))
             else None
        else Some (set_rpc s1 (RNotify (u, false, []))))
   | _ -> None)
| LSend ->
  (match s.rpc with
   | RNotify (u, mt, rem0) ->
     (match rem0 with
      | [] -> None
      | w :: rem ->
        let m = newer (s.wch w) u in
        Some
        (set_rpc
          (set_woff (set_wch s (fupd s.wch w (Some m)))
            (fupd s.woff w (app (s.woff w) (u :: [])))) (RNotify (u, mt,
          rem))))
   | _ -> None)
| LRUnlock ->
  (match s.rpc with
   | RNotify (_, _, rem) ->
     (match rem with
      | [] -> Some (set_rpc (set_readers s (pred s.readers)) RIdle)
      | _ :: _ -> None)
   | _ -> None)
| LTick ->
  (match s.rpc with
   | RIdle ->
     if lock_free s
     then Some (set_rpc (set_writer s (Some ARun)) RUpd)
     else None
   | _ -> None)
| LUpdDone obs0 ->
  (match s.rpc with
   | RUpd ->
     if is_writer s ARun
     then Some
            (set_rpc
              (set_writer
                (set_best s
                  (update_best strat (mk_conns nconns s.head obs0) s.best))
                None) RIdle)
     else None
   | _ -> None)
| LSubLock w ->
  (match s.wpc w with
   | WNew ->
     if lock_free s
     then Some (set_wpc (set_writer s (Some (AW w))) (fupd s.wpc w WSubL))
     else None
   | _ -> None)
| LSubBody w ->
  (match s.wpc w with
   | WSubL ->
     if is_writer s (AW w)
     then (match s.best with
           | Some b ->
             let s1 = set_wpc (set_writer s None) (fupd s.wpc w WWait) in
             if N.leb (tgt w) (s.head b)
             then Some
                    (set_log
                      (set_woff
                        (set_wid
                          (set_wch s1 (fupd s.wch w (Some (b, (s.head b)))))
                          (fupd s.wid w N0))
                        (fupd s.woff w
                          (app (s.woff w) ((b, (s.head b)) :: []))))
                      (app s.log ((b, (s.head b)) :: [])))
             else let id = N.add s.next_id (Npos XH) in
                  Some
                  (set_wid
                    (set_wl (set_next_id s1 id) (app s.wl ((id, w) :: [])))
                    (fupd s.wid w id))
           | None ->
             Some (set_wpc (set_writer s None) (fupd s.wpc w WPanicked)))
     else None
   | _ -> None)
| LRecv w ->
  (match s.wpc w with
   | WWait ->
     (match s.wch w with
      | Some m ->
        Some
          (set_wpc
            (set_wgot (set_wch s (fupd s.wch w None))
              (fupd s.wgot w (Some m)))
            (fupd s.wpc w
              (if N.leb (tgt w) (snd m) then WUnsub ROk else WWait)))
      | None -> None)
   | _ -> None)
| LLeave (w, r) ->
  (match s.wpc w with
   | WWait ->
     (match r with
      | ROk -> None
      | _ -> Some (set_wpc s (fupd s.wpc w (WUnsub r))))
   | _ -> None)
| LUnsub w ->
  (match s.wpc w with
   | WUnsub r ->
     if lock_free s
     then Some
            (set_wpc
              (set_wl s
                (filter (fun e -> negb (N.eqb (fst e) (s.wid w))) s.wl))
              (fupd s.wpc w (WDone r)))
     else None
   | _ -> None)

(** val init_state : (nat -> n) -> nat option -> state **)

let init_state heads b =
  { head = heads; pend = []; updq = []; best = b; readers = O; writer = None;
    wl = []; next_id = N0; rpc = RIdle; wpc = (fun _ -> WNew); wid =
    (fun _ -> N0); wch = (fun _ -> None); wgot = (fun _ -> None); woff =
    (fun _ -> []); log = [] }

(** val strat_of : n -> strategy **)

let strat_of n0 =
  if N.eqb n0 N0
  then BestPing
  else if N.eqb n0 (Npos XH) then FirstWorking else OtherStrategy

(** val conn_of : sx -> conn option **)

let conn_of = function
| SL l ->
  (match l with
   | [] -> None
   | s :: l0 ->
     (match s with
      | SB al ->
        (match l0 with
         | [] -> None
         | s0 :: l1 ->
           (match s0 with
            | SN sq ->
              (match l1 with
               | [] -> None
               | s1 :: l2 ->
                 (match s1 with
                  | SZ r ->
                    (match l2 with
                     | [] -> Some { c_alive = al; c_seqno = sq; c_rtt = r }
                     | _ :: _ -> None)
                  | _ -> None))
            | _ -> None))
      | _ -> None))
| _ -> None

(** val conns_of : sx list -> conn list option **)

let rec conns_of = function
| [] -> Some []
| a :: t ->
  (match conn_of a with
   | Some c ->
     (match conns_of t with
      | Some cs -> Some (c :: cs)
      | None -> None)
   | None -> None)

(** val prev_of : sx -> nat option option **)

let prev_of = function
| SN i ->
  Some (Some
    (N.to_nat
      (N.min i (Npos (XO (XO (XO (XI (XO (XI (XI (XI (XI XH)))))))))))))
| SA _ -> Some None
| _ -> None

(** val out_choice : nat option -> sx **)

let out_choice = function
| Some i -> sx_nat i
| None ->
  SA (String ((Ascii (false, true, true, true, false, true, true, false)),
    (String ((Ascii (true, true, true, true, false, true, true, false)),
    (String ((Ascii (false, true, true, true, false, true, true, false)),
    (String ((Ascii (true, false, true, false, false, true, true, false)),
    EmptyString))))))))

(** val run_ub : sx -> sx **)

let run_ub = function
| SL l ->
  (match l with
   | [] ->
     sx_err (String ((Ascii (true, false, true, false, true, true, true,
       false)), (String ((Ascii (false, true, false, false, false, true,
       true, false)), EmptyString))))
   | s :: l0 ->
     (match s with
      | SN st ->
        (match l0 with
         | [] ->
           sx_err (String ((Ascii (true, false, true, false, true, true,
             true, false)), (String ((Ascii (false, true, false, false,
             false, true, true, false)), EmptyString))))
         | pv :: l1 ->
           (match l1 with
            | [] ->
              sx_err (String ((Ascii (true, false, true, false, true, true,
                true, false)), (String ((Ascii (false, true, false, false,
                false, true, true, false)), EmptyString))))
            | s0 :: l2 ->
              (match s0 with
               | SL cl ->
                 (match l2 with
                  | [] ->
                    (match prev_of pv with
                     | Some prev ->
                       (match conns_of cl with
                        | Some cs ->
                          out_choice (update_best (strat_of st) cs prev)
                        | None ->
                          sx_err (String ((Ascii (true, false, true, false,
                            true, true, true, false)), (String ((Ascii
                            (false, true, false, false, false, true, true,
                            false)), (String ((Ascii (false, false, false,
                            false, false, true, false, false)), (String
                            ((Ascii (true, false, false, false, false, true,
                            true, false)), (String ((Ascii (false, true,
                            false, false, true, true, true, false)), (String
                            ((Ascii (true, true, true, false, false, true,
                            true, false)), (String ((Ascii (true, true,
                            false, false, true, true, true, false)),
                            EmptyString)))))))))))))))
                     | None ->
                       sx_err (String ((Ascii (true, false, true, false,
                         true, true, true, false)), (String ((Ascii (false,
                         true, false, false, false, true, true, false)),
                         (String ((Ascii (false, false, false, false, false,
                         true, false, false)), (String ((Ascii (true, false,
                         false, false, false, true, true, false)), (String
                         ((Ascii (false, true, false, false, true, true,
                         true, false)), (String ((Ascii (true, true, true,
                         false, false, true, true, false)), (String ((Ascii
                         (true, true, false, false, true, true, true,
                         false)), EmptyString)))))))))))))))
                  | _ :: _ ->
                    sx_err (String ((Ascii (true, false, true, false, true,
                      true, true, false)), (String ((Ascii (false, true,
                      false, false, false, true, true, false)),
                      EmptyString)))))
               | _ ->
                 sx_err (String ((Ascii (true, false, true, false, true,
                   true, true, false)), (String ((Ascii (false, true, false,
                   false, false, true, true, false)), EmptyString)))))))
      | _ ->
        sx_err (String ((Ascii (true, false, true, false, true, true, true,
          false)), (String ((Ascii (false, true, false, false, false, true,
          true, false)), EmptyString))))))
| _ ->
  sx_err (String ((Ascii (true, false, true, false, true, true, true,
    false)), (String ((Ascii (false, true, false, false, false, true, true,
    false)), EmptyString))))

(** val grid_seqnos : n list **)

let grid_seqnos =
  N0 :: ((Npos XH) :: ((Npos (XO XH)) :: ((Npos (XI XH)) :: ((Npos (XO (XI
    (XI (XI (XI (XI (XI (XI (XI (XI (XI (XI (XI (XI (XI (XI (XI (XI (XI (XI
    (XI (XI (XI (XI (XI (XI (XI (XI (XI (XI (XI
    XH)))))))))))))))))))))))))))))))) :: ((Npos (XI (XI (XI (XI (XI (XI (XI
    (XI (XI (XI (XI (XI (XI (XI (XI (XI (XI (XI (XI (XI (XI (XI (XI (XI (XI
    (XI (XI (XI (XI (XI (XI XH)))))))))))))))))))))))))))))))) :: [])))))

(** val grid_rtts : z list **)

let grid_rtts =
  (Zpos XH) :: ((Zpos (XO XH)) :: ((Zpos (XI XH)) :: []))

(** val grid_conns : conn list **)

let grid_conns =
  flat_map (fun al ->
    flat_map (fun sq ->
      map (fun r -> { c_alive = al; c_seqno = sq; c_rtt = r }) grid_rtts)
      grid_seqnos) (true :: (false :: []))

(** val prevs : nat -> nat option list **)

let rec prevs = function
| O -> None :: []
| S k0 -> app (prevs k0) ((Some k0) :: [])

(** val run_ubx : sx -> sx **)

let run_ubx = function
| SL l ->
  (match l with
   | [] ->
     sx_err (String ((Ascii (true, false, true, false, true, true, true,
       false)), (String ((Ascii (false, true, false, false, false, true,
       true, false)), (String ((Ascii (false, false, false, true, true, true,
       true, false)), EmptyString))))))
   | s :: l0 ->
     (match s with
      | SN st ->
        (match l0 with
         | [] ->
           sx_err (String ((Ascii (true, false, true, false, true, true,
             true, false)), (String ((Ascii (false, true, false, false,
             false, true, true, false)), (String ((Ascii (false, false,
             false, true, true, true, true, false)), EmptyString))))))
         | s0 :: l1 ->
           (match s0 with
            | SL cl ->
              (match l1 with
               | [] ->
                 (match conns_of cl with
                  | Some pre ->
                    SL
                      (flat_map (fun last0 ->
                        let cs = app pre (last0 :: []) in
                        map (fun pv ->
                          out_choice (update_best (strat_of st) cs pv))
                          (prevs (length cs))) grid_conns)
                  | None ->
                    sx_err (String ((Ascii (true, false, true, false, true,
                      true, true, false)), (String ((Ascii (false, true,
                      false, false, false, true, true, false)), (String
                      ((Ascii (false, false, false, true, true, true, true,
                      false)), (String ((Ascii (false, false, false, false,
                      false, true, false, false)), (String ((Ascii (true,
                      false, false, false, false, true, true, false)),
                      (String ((Ascii (false, true, false, false, true, true,
                      true, false)), (String ((Ascii (true, true, true,
                      false, false, true, true, false)), (String ((Ascii
                      (true, true, false, false, true, true, true, false)),
                      EmptyString)))))))))))))))))
               | _ :: _ ->
                 sx_err (String ((Ascii (true, false, true, false, true,
                   true, true, false)), (String ((Ascii (false, true, false,
                   false, false, true, true, false)), (String ((Ascii (false,
                   false, false, true, true, true, true, false)),
                   EmptyString)))))))
            | _ ->
              sx_err (String ((Ascii (true, false, true, false, true, true,
                true, false)), (String ((Ascii (false, true, false, false,
                false, true, true, false)), (String ((Ascii (false, false,
                false, true, true, true, true, false)), EmptyString))))))))
      | _ ->
        sx_err (String ((Ascii (true, false, true, false, true, true, true,
          false)), (String ((Ascii (false, true, false, false, false, true,
          true, false)), (String ((Ascii (false, false, false, true, true,
          true, true, false)), EmptyString))))))))
| _ ->
  sx_err (String ((Ascii (true, false, true, false, true, true, true,
    false)), (String ((Ascii (false, true, false, false, false, true, true,
    false)), (String ((Ascii (false, false, false, true, true, true, true,
    false)), EmptyString))))))

type mop =
| MLabel of label
| MPublish of msg
| MRLock
| MSendAll

type agent_id =
| GConn of nat
| GRun
| GWaiter of nat

type okind =
| KDone
| KSub of nat
| KBest

type pend_op = { p_op : nat; p_agent : agent_id; p_script : mop list;
                 p_kind : okind }

(** val msg_eqb : msg -> msg -> bool **)

let msg_eqb a b =
  (&&) (Nat.eqb (fst a) (fst b)) (N.eqb (snd a) (snd b))

(** val index_of0 : msg -> msg list -> nat -> nat option **)

let rec index_of0 m l i =
  match l with
  | [] -> None
  | x :: t -> if msg_eqb x m then Some i else index_of0 m t (S i)

(** val send_all :
    strategy -> nat -> (nat -> n) -> nat -> state -> state * bool **)

let rec send_all strat nconns tgt fuel s =
  match s.rpc with
  | RNotify (_, _, rem) ->
    (match rem with
     | [] -> (s, true)
     | _ :: _ ->
       (match fuel with
        | O -> (s, false)
        | S f ->
          (match step0 strat nconns tgt s LSend with
           | Some s' -> send_all strat nconns tgt f s'
           | None -> (s, false))))
  | _ -> (s, true)

(** val exec_mop :
    strategy -> nat -> (nat -> n) -> state -> mop -> state * bool **)

let exec_mop strat nconns tgt s = function
| MLabel l ->
  (match step0 strat nconns tgt s l with
   | Some s' -> (s', true)
   | None -> (s, false))
| MPublish u ->
  (match index_of0 u s.pend O with
   | Some k0 ->
     (match step0 strat nconns tgt s (LPublish k0) with
      | Some s' -> (s', true)
      | None -> (s, false))
   | None -> (s, true))
| MRLock ->
  (match step0 strat nconns tgt s (LRLock (map snd s.wl)) with
   | Some s' -> (s', true)
   | None -> (s, false))
| MSendAll -> send_all strat nconns tgt (S (length s.wl)) s

(** val advance :
    strategy -> nat -> (nat -> n) -> state -> mop list -> state * mop list **)

let rec advance strat nconns tgt s script = match script with
| [] -> (s, [])
| m :: t ->
  let (s', fin) = exec_mop strat nconns tgt s m in
  if fin then advance strat nconns tgt s' t else (s', script)

(** val finish : okind -> state -> sx **)

let finish k0 s =
  match k0 with
  | KDone ->
    SA (String ((Ascii (false, false, true, false, false, true, true,
      false)), (String ((Ascii (true, true, true, true, false, true, true,
      false)), (String ((Ascii (false, true, true, true, false, true, true,
      false)), (String ((Ascii (true, false, true, false, false, true, true,
      false)), EmptyString))))))))
  | KSub w ->
    SL ((SA (String ((Ascii (true, true, false, false, true, true, true,
      false)), (String ((Ascii (true, false, true, false, true, true, true,
      false)), (String ((Ascii (false, true, false, false, false, true, true,
      false)), EmptyString))))))) :: ((SB
      (match s.wch w with
       | Some _ -> true
       | None -> false)) :: []))
  | KBest ->
    SL ((SA (String ((Ascii (false, true, false, false, false, true, true,
      false)), (String ((Ascii (true, false, true, false, false, true, true,
      false)), (String ((Ascii (true, true, false, false, true, true, true,
      false)), (String ((Ascii (false, false, true, false, true, true, true,
      false)), EmptyString))))))))) :: ((out_choice s.best) :: []))

(** val settle_pass :
    strategy -> nat -> (nat -> n) -> state -> pend_op list ->
    ((state * pend_op list) * sx list) * bool **)

let rec settle_pass strat nconns tgt s = function
| [] -> (((s, []), []), false)
| p :: t ->
  let (s1, rest) = advance strat nconns tgt s p.p_script in
  let moved = negb (Nat.eqb (length rest) (length p.p_script)) in
  let (p0, prog) = settle_pass strat nconns tgt s1 t in
  let (p1, outs) = p0 in
  let (s2, ps') = p1 in
  (match rest with
   | [] ->
     (((s2, ps'), ((SL
       ((sx_nat p.p_op) :: ((finish p.p_kind s1) :: []))) :: outs)), true)
   | _ :: _ ->
     (((s2, ({ p_op = p.p_op; p_agent = p.p_agent; p_script = rest; p_kind =
       p.p_kind } :: ps')), outs), ((||) moved prog)))

(** val settle :
    strategy -> nat -> (nat -> n) -> nat -> state -> pend_op list ->
    (state * pend_op list) * sx list **)

let rec settle strat nconns tgt fuel s ps =
  match fuel with
  | O -> ((s, ps), [])
  | S f ->
    let (p, prog) = settle_pass strat nconns tgt s ps in
    let (p0, outs) = p in
    let (s1, ps1) = p0 in
    if prog
    then let (p1, outs2) = settle strat nconns tgt f s1 ps1 in
         (p1, (app outs outs2))
    else ((s1, ps1), outs)

(** val agent_eqb : agent_id -> agent_id -> bool **)

let agent_eqb a b =
  match a with
  | GConn x -> (match b with
                | GConn y -> Nat.eqb x y
                | _ -> false)
  | GRun -> (match b with
             | GRun -> true
             | _ -> false)
  | GWaiter x -> (match b with
                  | GWaiter y -> Nat.eqb x y
                  | _ -> false)

(** val busy : pend_op list -> agent_id -> bool **)

let busy ps a =
  existsb (fun p -> agent_eqb p.p_agent a) ps

(** val wants_lock : pend_op -> bool **)

let wants_lock p =
  match p.p_script with
  | [] -> false
  | m :: _ ->
    (match m with
     | MLabel l0 ->
       (match l0 with
        | LTick -> true
        | LSubLock _ -> true
        | LUnsub _ -> true
        | _ -> false)
     | _ -> false)

(** val launch :
    strategy -> nat -> (nat -> n) -> nat -> agent_id -> mop list -> okind ->
    sx -> state -> pend_op list -> (sx * state) * pend_op list **)

let launch strat nconns tgt i a script k0 blocked s ps =
  let (s1, rest) = advance strat nconns tgt s script in
  (match rest with
   | [] -> (((finish k0 s1), s1), ps)
   | _ :: _ ->
     ((blocked, s1),
       (app ps ({ p_op = i; p_agent = a; p_script = rest; p_kind =
         k0 } :: []))))

(** val small : n -> nat **)

let small n0 =
  N.to_nat (N.min n0 (Npos (XO (XO (XO (XO (XO (XO XH))))))))

(** val set_nth_obs :
    nat -> (bool * z) -> (bool * z) list -> (bool * z) list **)

let rec set_nth_obs i v l =
  match i with
  | O -> (match l with
          | [] -> v :: []
          | _ :: t -> v :: t)
  | S k0 ->
    (match l with
     | [] -> (false, Z0) :: (set_nth_obs k0 v [])
     | x :: t -> x :: (set_nth_obs k0 v t))

(** val do_op :
    strategy -> nat -> (nat -> n) -> nat -> nat -> sx -> (bool * z) list ->
    state -> pend_op list -> ((sx * (bool * z) list) * state) * pend_op list **)

let do_op strat nconns tgt i nw o obs0 s ps =
  let ret = fun x ->
    let (p, ps1) = x in let (r, s1) = p in (((r, obs0), s1), ps1)
  in
  (match o with
   | SL l ->
     (match l with
      | [] ->
        ret
          (((sx_err (String ((Ascii (true, true, true, true, false, true,
              true, false)), (String ((Ascii (false, false, false, false,
              true, true, true, false)), EmptyString))))), s), ps)
      | s0 :: args ->
        (match s0 with
         | SA nm ->
           let is = fun x -> eqb1 nm x in
           (match args with
            | [] ->
              if is (String ((Ascii (false, true, true, true, false, true,
                   true, false)), (String ((Ascii (true, true, true, true,
                   false, true, true, false)), (String ((Ascii (false, false,
                   true, false, true, true, true, false)), (String ((Ascii
                   (true, false, false, true, false, true, true, false)),
                   (String ((Ascii (false, true, true, false, false, true,
                   true, false)), (String ((Ascii (true, false, false, true,
                   true, true, true, false)), EmptyString))))))))))))
              then if busy ps GRun
                   then ret (((SA (String ((Ascii (false, true, false, false,
                          false, true, true, false)), (String ((Ascii (true,
                          false, true, false, true, true, true, false)),
                          (String ((Ascii (true, true, false, false, true,
                          true, true, false)), (String ((Ascii (true, false,
                          false, true, true, true, true, false)),
                          EmptyString))))))))), s), ps)
                   else (match step0 strat nconns tgt s LTake with
                         | Some s1 ->
                           let u =
                             match s1.rpc with
                             | RWantR u -> u
                             | _ -> (O, N0)
                           in
                           let (p, ps2) =
                             launch strat nconns tgt i GRun
                               (MRLock :: (MSendAll :: ((MLabel
                               LRUnlock) :: []))) KDone (SA (String ((Ascii
                               (false, true, false, false, false, true, true,
                               false)), (String ((Ascii (false, false, true,
                               true, false, true, true, false)), (String
                               ((Ascii (true, true, true, true, false, true,
                               true, false)), (String ((Ascii (true, true,
                               false, false, false, true, true, false)),
                               (String ((Ascii (true, true, false, true,
                               false, true, true, false)), (String ((Ascii
                               (true, false, true, false, false, true, true,
                               false)), (String ((Ascii (false, false, true,
                               false, false, true, true, false)),
                               EmptyString))))))))))))))) s1 ps
                           in
                           let (r, s2) = p in
                           ((((SL (r :: ((sx_nat (fst u)) :: ((SN
                           (snd u)) :: [])))), obs0), s2), ps2)
                         | None ->
                           ret (((SA (String ((Ascii (true, false, true,
                             false, false, true, true, false)), (String
                             ((Ascii (true, false, true, true, false, true,
                             true, false)), (String ((Ascii (false, false,
                             false, false, true, true, true, false)), (String
                             ((Ascii (false, false, true, false, true, true,
                             true, false)), (String ((Ascii (true, false,
                             false, true, true, true, true, false)),
                             EmptyString))))))))))), s), ps))
              else if is (String ((Ascii (false, false, true, false, true,
                        true, true, false)), (String ((Ascii (true, false,
                        false, true, false, true, true, false)), (String
                        ((Ascii (true, true, false, false, false, true, true,
                        false)), (String ((Ascii (true, true, false, true,
                        false, true, true, false)), EmptyString))))))))
                   then if busy ps GRun
                        then ret (((SA (String ((Ascii (false, true, false,
                               false, false, true, true, false)), (String
                               ((Ascii (true, false, true, false, true, true,
                               true, false)), (String ((Ascii (true, true,
                               false, false, true, true, true, false)),
                               (String ((Ascii (true, false, false, true,
                               true, true, true, false)),
                               EmptyString))))))))), s), ps)
                        else ret
                               (launch strat nconns tgt i GRun ((MLabel
                                 LTick) :: ((MLabel (LUpdDone obs0)) :: []))
                                 KBest (SA (String ((Ascii (false, true,
                                 false, false, false, true, true, false)),
                                 (String ((Ascii (false, false, true, true,
                                 false, true, true, false)), (String ((Ascii
                                 (true, true, true, true, false, true, true,
                                 false)), (String ((Ascii (true, true, false,
                                 false, false, true, true, false)), (String
                                 ((Ascii (true, true, false, true, false,
                                 true, true, false)), (String ((Ascii (true,
                                 false, true, false, false, true, true,
                                 false)), (String ((Ascii (false, false,
                                 true, false, false, true, true, false)),
                                 EmptyString))))))))))))))) s ps)
                   else if is (String ((Ascii (true, true, false, false,
                             true, true, true, false)), (String ((Ascii
                             (false, false, true, false, true, true, true,
                             false)), (String ((Ascii (true, false, false,
                             false, false, true, true, false)), (String
                             ((Ascii (false, false, true, false, true, true,
                             true, false)), (String ((Ascii (true, false,
                             true, false, false, true, true, false)),
                             EmptyString))))))))))
                        then let locked =
                               (||)
                                 (match s.writer with
                                  | Some _ -> true
                                  | None -> false) (existsb wants_lock ps)
                             in
                             ret (((SL
                               ((sx_nat (length s.updq)) :: ((if locked
                                                              then SA (String
                                                                    ((Ascii
                                                                    (false,
                                                                    false,
                                                                    true,
                                                                    true,
                                                                    false,
                                                                    true,
                                                                    true,
                                                                    false)),
                                                                    (String
                                                                    ((Ascii
                                                                    (true,
                                                                    true,
                                                                    true,
                                                                    true,
                                                                    false,
                                                                    true,
                                                                    true,
                                                                    false)),
                                                                    (String
                                                                    ((Ascii
                                                                    (true,
                                                                    true,
                                                                    false,
                                                                    false,
                                                                    false,
                                                                    true,
                                                                    true,
                                                                    false)),
                                                                    (String
                                                                    ((Ascii
                                                                    (true,
                                                                    true,
                                                                    false,
                                                                    true,
                                                                    false,
                                                                    true,
                                                                    true,
                                                                    false)),
                                                                    (String
                                                                    ((Ascii
                                                                    (true,
                                                                    false,
                                                                    true,
                                                                    false,
                                                                    false,
                                                                    true,
                                                                    true,
                                                                    false)),
                                                                    (String
                                                                    ((Ascii
                                                                    (false,
                                                                    false,
                                                                    true,
                                                                    false,
                                                                    false,
                                                                    true,
                                                                    true,
                                                                    false)),
                                                                    EmptyString))))))))))))
                                                              else sx_nat
                                                                    (length
                                                                    s.wl)) :: ((SL
                               (map (fun w -> SB
                                 (match s.wch w with
                                  | Some _ -> true
                                  | None -> false)) (seq O nw))) :: (
                               (out_choice s.best) :: []))))), s), ps)
                        else ret
                               (((sx_err (String ((Ascii (true, true, true,
                                   true, false, true, true, false)), (String
                                   ((Ascii (false, false, false, false, true,
                                   true, true, false)), (String ((Ascii
                                   (false, false, false, false, true, true,
                                   false, false)), EmptyString))))))), s), ps)
            | s1 :: l0 ->
              (match s1 with
               | SN a1 ->
                 (match l0 with
                  | [] ->
                    let w = small a1 in
                    if is (String ((Ascii (true, true, false, false, true,
                         true, true, false)), (String ((Ascii (true, false,
                         true, false, true, true, true, false)), (String
                         ((Ascii (false, true, false, false, false, true,
                         true, false)), EmptyString))))))
                    then if busy ps (GWaiter w)
                         then ret (((SA (String ((Ascii (false, true, false,
                                false, false, true, true, false)), (String
                                ((Ascii (true, false, true, false, true,
                                true, true, false)), (String ((Ascii (true,
                                true, false, false, true, true, true,
                                false)), (String ((Ascii (true, false, false,
                                true, true, true, true, false)),
                                EmptyString))))))))), s), ps)
                         else (match s.wpc w with
                               | WNew ->
                                 ret
                                   (launch strat nconns tgt i (GWaiter w)
                                     ((MLabel (LSubLock w)) :: ((MLabel
                                     (LSubBody w)) :: [])) (KSub w) (SA
                                     (String ((Ascii (false, true, false,
                                     false, false, true, true, false)),
                                     (String ((Ascii (false, false, true,
                                     true, false, true, true, false)),
                                     (String ((Ascii (true, true, true, true,
                                     false, true, true, false)), (String
                                     ((Ascii (true, true, false, false,
                                     false, true, true, false)), (String
                                     ((Ascii (true, true, false, true, false,
                                     true, true, false)), (String ((Ascii
                                     (true, false, true, false, false, true,
                                     true, false)), (String ((Ascii (false,
                                     false, true, false, false, true, true,
                                     false)), EmptyString))))))))))))))) s ps)
                               | _ ->
                                 ret (((SA (String ((Ascii (false, true,
                                   false, false, false, true, true, false)),
                                   (String ((Ascii (true, false, false,
                                   false, false, true, true, false)), (String
                                   ((Ascii (false, false, true, false, false,
                                   true, true, false)), EmptyString))))))),
                                   s), ps))
                    else if is (String ((Ascii (false, true, false, false,
                              true, true, true, false)), (String ((Ascii
                              (true, false, true, false, false, true, true,
                              false)), (String ((Ascii (true, true, false,
                              false, false, true, true, false)), (String
                              ((Ascii (false, true, true, false, true, true,
                              true, false)), EmptyString))))))))
                         then if busy ps (GWaiter w)
                              then ret (((SA (String ((Ascii (false, true,
                                     false, false, false, true, true,
                                     false)), (String ((Ascii (true, false,
                                     false, false, false, true, true,
                                     false)), (String ((Ascii (false, false,
                                     true, false, false, true, true, false)),
                                     EmptyString))))))), s), ps)
                              else (match s.wpc w with
                                    | WWait ->
                                      (match s.wch w with
                                       | Some m ->
                                         (match step0 strat nconns tgt s
                                                  (LRecv w) with
                                          | Some s2 ->
                                            ret (((SL ((SA (String ((Ascii
                                              (false, false, false, true,
                                              false, true, true, false)),
                                              (String ((Ascii (true, false,
                                              true, false, false, true, true,
                                              false)), (String ((Ascii (true,
                                              false, false, false, false,
                                              true, true, false)), (String
                                              ((Ascii (false, false, true,
                                              false, false, true, true,
                                              false)),
                                              EmptyString))))))))) :: ((SN
                                              (snd m)) :: []))), s2), ps)
                                          | None ->
                                            ret
                                              (((sx_err (String ((Ascii
                                                  (false, true, false, false,
                                                  true, true, true, false)),
                                                  (String ((Ascii (true,
                                                  false, true, false, false,
                                                  true, true, false)),
                                                  (String ((Ascii (true,
                                                  true, false, false, false,
                                                  true, true, false)),
                                                  (String ((Ascii (false,
                                                  true, true, false, true,
                                                  true, true, false)),
                                                  EmptyString))))))))), s),
                                              ps))
                                       | None ->
                                         ret (((SA (String ((Ascii (true,
                                           false, true, false, false, true,
                                           true, false)), (String ((Ascii
                                           (true, false, true, true, false,
                                           true, true, false)), (String
                                           ((Ascii (false, false, false,
                                           false, true, true, true, false)),
                                           (String ((Ascii (false, false,
                                           true, false, true, true, true,
                                           false)), (String ((Ascii (true,
                                           false, false, true, true, true,
                                           true, false)),
                                           EmptyString))))))))))), s), ps))
                                    | _ ->
                                      ret (((SA (String ((Ascii (false, true,
                                        false, false, false, true, true,
                                        false)), (String ((Ascii (true,
                                        false, false, false, false, true,
                                        true, false)), (String ((Ascii
                                        (false, false, true, false, false,
                                        true, true, false)),
                                        EmptyString))))))), s), ps))
                         else if is (String ((Ascii (true, false, true,
                                   false, true, true, true, false)), (String
                                   ((Ascii (false, true, true, true, false,
                                   true, true, false)), (String ((Ascii
                                   (true, true, false, false, true, true,
                                   true, false)), (String ((Ascii (true,
                                   false, true, false, true, true, true,
                                   false)), (String ((Ascii (false, true,
                                   false, false, false, true, true, false)),
                                   EmptyString))))))))))
                              then if busy ps (GWaiter w)
                                   then ret (((SA (String ((Ascii (false,
                                          true, false, false, false, true,
                                          true, false)), (String ((Ascii
                                          (true, false, true, false, true,
                                          true, true, false)), (String
                                          ((Ascii (true, true, false, false,
                                          true, true, true, false)), (String
                                          ((Ascii (true, false, false, true,
                                          true, true, true, false)),
                                          EmptyString))))))))), s), ps)
                                   else (match s.wpc w with
                                         | WWait ->
                                           ret
                                             (launch strat nconns tgt i
                                               (GWaiter w) ((MLabel (LLeave
                                               (w, RTimeout))) :: ((MLabel
                                               (LUnsub w)) :: [])) KDone (SA
                                               (String ((Ascii (false, true,
                                               false, false, false, true,
                                               true, false)), (String ((Ascii
                                               (false, false, true, true,
                                               false, true, true, false)),
                                               (String ((Ascii (true, true,
                                               true, true, false, true, true,
                                               false)), (String ((Ascii
                                               (true, true, false, false,
                                               false, true, true, false)),
                                               (String ((Ascii (true, true,
                                               false, true, false, true,
                                               true, false)), (String ((Ascii
                                               (true, false, true, false,
                                               false, true, true, false)),
                                               (String ((Ascii (false, false,
                                               true, false, false, true,
                                               true, false)),
                                               EmptyString))))))))))))))) s
                                               ps)
                                         | WUnsub _ ->
                                           ret
                                             (launch strat nconns tgt i
                                               (GWaiter w) ((MLabel (LUnsub
                                               w)) :: []) KDone (SA (String
                                               ((Ascii (false, true, false,
                                               false, false, true, true,
                                               false)), (String ((Ascii
                                               (false, false, true, true,
                                               false, true, true, false)),
                                               (String ((Ascii (true, true,
                                               true, true, false, true, true,
                                               false)), (String ((Ascii
                                               (true, true, false, false,
                                               false, true, true, false)),
                                               (String ((Ascii (true, true,
                                               false, true, false, true,
                                               true, false)), (String ((Ascii
                                               (true, false, true, false,
                                               false, true, true, false)),
                                               (String ((Ascii (false, false,
                                               true, false, false, true,
                                               true, false)),
                                               EmptyString))))))))))))))) s
                                               ps)
                                         | _ ->
                                           ret (((SA (String ((Ascii (false,
                                             true, false, false, false, true,
                                             true, false)), (String ((Ascii
                                             (true, false, false, false,
                                             false, true, true, false)),
                                             (String ((Ascii (false, false,
                                             true, false, false, true, true,
                                             false)), EmptyString))))))), s),
                                             ps))
                              else ret
                                     (((sx_err (String ((Ascii (true, true,
                                         true, true, false, true, true,
                                         false)), (String ((Ascii (false,
                                         false, false, false, true, true,
                                         true, false)), (String ((Ascii
                                         (true, false, false, false, true,
                                         true, false, false)),
                                         EmptyString))))))), s), ps)
                  | s2 :: l1 ->
                    (match s2 with
                     | SN h ->
                       (match l1 with
                        | [] ->
                          let c = small a1 in
                          if is (String ((Ascii (true, true, false, false,
                               true, true, true, false)), (String ((Ascii
                               (true, false, true, false, false, true, true,
                               false)), (String ((Ascii (false, false, true,
                               false, true, true, true, false)), (String
                               ((Ascii (false, false, false, true, false,
                               true, true, false)), (String ((Ascii (true,
                               false, true, false, false, true, true,
                               false)), (String ((Ascii (true, false, false,
                               false, false, true, true, false)), (String
                               ((Ascii (false, false, true, false, false,
                               true, true, false)), EmptyString))))))))))))))
                          then if busy ps (GConn c)
                               then ret (((SA (String ((Ascii (false, true,
                                      false, false, false, true, true,
                                      false)), (String ((Ascii (true, false,
                                      true, false, true, true, true, false)),
                                      (String ((Ascii (true, true, false,
                                      false, true, true, true, false)),
                                      (String ((Ascii (true, false, false,
                                      true, true, true, true, false)),
                                      EmptyString))))))))), s), ps)
                               else ret
                                      (launch strat nconns tgt i (GConn c)
                                        ((MLabel (LSetHead (c,
                                        h))) :: ((MPublish (c, h)) :: []))
                                        KDone (SA (String ((Ascii (false,
                                        true, false, false, false, true,
                                        true, false)), (String ((Ascii
                                        (false, false, true, true, false,
                                        true, true, false)), (String ((Ascii
                                        (true, true, true, true, false, true,
                                        true, false)), (String ((Ascii (true,
                                        true, false, false, false, true,
                                        true, false)), (String ((Ascii (true,
                                        true, false, true, false, true, true,
                                        false)), (String ((Ascii (true,
                                        false, true, false, false, true,
                                        true, false)), (String ((Ascii
                                        (false, false, true, false, false,
                                        true, true, false)),
                                        EmptyString))))))))))))))) s ps)
                          else ret
                                 (((sx_err (String ((Ascii (true, true, true,
                                     true, false, true, true, false)),
                                     (String ((Ascii (false, false, false,
                                     false, true, true, true, false)),
                                     (String ((Ascii (false, true, false,
                                     false, true, true, false, false)),
                                     EmptyString))))))), s), ps)
                        | _ :: _ ->
                          ret
                            (((sx_err (String ((Ascii (true, true, true,
                                true, false, true, true, false)), (String
                                ((Ascii (false, false, false, false, true,
                                true, true, false)), (String ((Ascii (false,
                                false, false, false, false, true, false,
                                false)), (String ((Ascii (true, false, false,
                                false, false, true, true, false)), (String
                                ((Ascii (false, true, false, false, true,
                                true, true, false)), (String ((Ascii (true,
                                true, true, false, false, true, true,
                                false)), (String ((Ascii (true, true, false,
                                false, true, true, true, false)),
                                EmptyString))))))))))))))), s), ps))
                     | SB al ->
                       (match l1 with
                        | [] ->
                          ret
                            (((sx_err (String ((Ascii (true, true, true,
                                true, false, true, true, false)), (String
                                ((Ascii (false, false, false, false, true,
                                true, true, false)), (String ((Ascii (false,
                                false, false, false, false, true, false,
                                false)), (String ((Ascii (true, false, false,
                                false, false, true, true, false)), (String
                                ((Ascii (false, true, false, false, true,
                                true, true, false)), (String ((Ascii (true,
                                true, true, false, false, true, true,
                                false)), (String ((Ascii (true, true, false,
                                false, true, true, true, false)),
                                EmptyString))))))))))))))), s), ps)
                        | s3 :: l2 ->
                          (match s3 with
                           | SZ r ->
                             (match l2 with
                              | [] ->
                                if is (String ((Ascii (true, true, false,
                                     false, false, true, true, false)),
                                     (String ((Ascii (true, true, true, true,
                                     false, true, true, false)), (String
                                     ((Ascii (false, true, true, true, false,
                                     true, true, false)), (String ((Ascii
                                     (false, true, true, true, false, true,
                                     true, false)), EmptyString))))))))
                                then ((((SA (String ((Ascii (false, false,
                                       true, false, false, true, true,
                                       false)), (String ((Ascii (true, true,
                                       true, true, false, true, true,
                                       false)), (String ((Ascii (false, true,
                                       true, true, false, true, true,
                                       false)), (String ((Ascii (true, false,
                                       true, false, false, true, true,
                                       false)), EmptyString))))))))),
                                       (set_nth_obs (small a1) (al, r) obs0)),
                                       s), ps)
                                else ret
                                       (((sx_err (String ((Ascii (true, true,
                                           true, true, false, true, true,
                                           false)), (String ((Ascii (false,
                                           false, false, false, true, true,
                                           true, false)), (String ((Ascii
                                           (true, true, false, false, true,
                                           true, false, false)),
                                           EmptyString))))))), s), ps)
                              | _ :: _ ->
                                ret
                                  (((sx_err (String ((Ascii (true, true,
                                      true, true, false, true, true, false)),
                                      (String ((Ascii (false, false, false,
                                      false, true, true, true, false)),
                                      (String ((Ascii (false, false, false,
                                      false, false, true, false, false)),
                                      (String ((Ascii (true, false, false,
                                      false, false, true, true, false)),
                                      (String ((Ascii (false, true, false,
                                      false, true, true, true, false)),
                                      (String ((Ascii (true, true, true,
                                      false, false, true, true, false)),
                                      (String ((Ascii (true, true, false,
                                      false, true, true, true, false)),
                                      EmptyString))))))))))))))), s), ps))
                           | _ ->
                             ret
                               (((sx_err (String ((Ascii (true, true, true,
                                   true, false, true, true, false)), (String
                                   ((Ascii (false, false, false, false, true,
                                   true, true, false)), (String ((Ascii
                                   (false, false, false, false, false, true,
                                   false, false)), (String ((Ascii (true,
                                   false, false, false, false, true, true,
                                   false)), (String ((Ascii (false, true,
                                   false, false, true, true, true, false)),
                                   (String ((Ascii (true, true, true, false,
                                   false, true, true, false)), (String
                                   ((Ascii (true, true, false, false, true,
                                   true, true, false)),
                                   EmptyString))))))))))))))), s), ps)))
                     | _ ->
                       ret
                         (((sx_err (String ((Ascii (true, true, true, true,
                             false, true, true, false)), (String ((Ascii
                             (false, false, false, false, true, true, true,
                             false)), (String ((Ascii (false, false, false,
                             false, false, true, false, false)), (String
                             ((Ascii (true, false, false, false, false, true,
                             true, false)), (String ((Ascii (false, true,
                             false, false, true, true, true, false)), (String
                             ((Ascii (true, true, true, false, false, true,
                             true, false)), (String ((Ascii (true, true,
                             false, false, true, true, true, false)),
                             EmptyString))))))))))))))), s), ps)))
               | _ ->
                 ret
                   (((sx_err (String ((Ascii (true, true, true, true, false,
                       true, true, false)), (String ((Ascii (false, false,
                       false, false, true, true, true, false)), (String
                       ((Ascii (false, false, false, false, false, true,
                       false, false)), (String ((Ascii (true, false, false,
                       false, false, true, true, false)), (String ((Ascii
                       (false, true, false, false, true, true, true, false)),
                       (String ((Ascii (true, true, true, false, false, true,
                       true, false)), (String ((Ascii (true, true, false,
                       false, true, true, true, false)),
                       EmptyString))))))))))))))), s), ps)))
         | _ ->
           ret
             (((sx_err (String ((Ascii (true, true, true, true, false, true,
                 true, false)), (String ((Ascii (false, false, false, false,
                 true, true, true, false)), EmptyString))))), s), ps)))
   | _ ->
     ret
       (((sx_err (String ((Ascii (true, true, true, true, false, true, true,
           false)), (String ((Ascii (false, false, false, false, true, true,
           true, false)), EmptyString))))), s), ps))

(** val op_index : sx -> nat **)

let op_index = function
| SL l ->
  (match l with
   | [] -> O
   | s :: _ ->
     (match s with
      | SN i ->
        N.to_nat
          (N.min i (Npos (XO (XO (XO (XO (XO (XI (XO (XI (XO (XI (XI (XO (XO
            (XO (XO (XI XH))))))))))))))))))
      | _ -> O))
| _ -> O

(** val ins_by_index : sx -> sx list -> sx list **)

let rec ins_by_index x l = match l with
| [] -> x :: []
| y :: t ->
  if Nat.leb (op_index x) (op_index y)
  then x :: l
  else y :: (ins_by_index x t)

(** val sort_by_index : sx list -> sx list **)

let sort_by_index l =
  fold_right ins_by_index [] l

(** val run_ops1 :
    strategy -> nat -> (nat -> n) -> nat -> nat -> sx list -> (bool * z) list
    -> state -> pend_op list -> sx list **)

let rec run_ops1 strat nconns tgt i nw ops obs0 s ps =
  match ops with
  | [] -> []
  | o :: t ->
    let (p, ps1) = do_op strat nconns tgt i nw o obs0 s ps in
    let (p0, s1) = p in
    let (r, obs1) = p0 in
    let (p1, outs) = settle strat nconns tgt (S (S (length ps1))) s1 ps1 in
    let (s2, ps2) = p1 in
    (SL (r :: ((SL
    (sort_by_index outs)) :: []))) :: (run_ops1 strat nconns tgt (S i) nw t
                                        obs1 s2 ps2)

(** val try_step :
    strategy -> nat -> (nat -> n) -> state -> label -> state **)

let try_step strat nconns tgt s l =
  match step0 strat nconns tgt s l with
  | Some s' -> s'
  | None -> s

(** val deliver :
    strategy -> nat -> (nat -> n) -> state -> nat -> n -> state **)

let deliver strat nconns tgt s c h =
  let s1 = try_step strat nconns tgt s (LSetHead (c, h)) in
  let s2 = try_step strat nconns tgt s1 (LPublish O) in
  let s3 = try_step strat nconns tgt s2 LTake in
  let s4 = try_step strat nconns tgt s3 (LRLock (map snd s3.wl)) in
  let s5 = fst (send_all strat nconns tgt (S (S (S (S O)))) s4) in
  let s6 = try_step strat nconns tgt s5 LRUnlock in
  try_step strat nconns tgt s6 (LRecv O)

(** val wait_scenario :
    strategy -> nat -> (nat -> n) -> state -> (nat * n) list -> wres -> sx **)

let wait_scenario strat nconns tgt s0 heads fin =
  let s1 =
    try_step strat nconns tgt (try_step strat nconns tgt s0 (LSubLock O))
      (LSubBody O)
  in
  let s2 = try_step strat nconns tgt s1 (LRecv O) in
  let s3 =
    fold_left (fun s ch1 -> deliver strat nconns tgt s (fst ch1) (snd ch1))
      heads s2
  in
  let s4 =
    try_step strat nconns tgt
      (try_step strat nconns tgt s3 (LLeave (O, fin))) (LUnsub O)
  in
  (match s4.wpc O with
   | WDone r ->
     (match r with
      | ROk ->
        SA (String ((Ascii (false, true, true, true, false, true, true,
          false)), (String ((Ascii (true, false, false, true, false, true,
          true, false)), (String ((Ascii (false, false, true, true, false,
          true, true, false)), EmptyString))))))
      | RTimeout ->
        SA (String ((Ascii (false, false, true, false, true, true, true,
          false)), (String ((Ascii (true, false, false, true, false, true,
          true, false)), (String ((Ascii (true, false, true, true, false,
          true, true, false)), (String ((Ascii (true, false, true, false,
          false, true, true, false)), (String ((Ascii (true, true, true,
          true, false, true, true, false)), (String ((Ascii (true, false,
          true, false, true, true, true, false)), (String ((Ascii (false,
          false, true, false, true, true, true, false)),
          EmptyString))))))))))))))
      | RCancel ->
        SA (String ((Ascii (true, true, false, false, false, true, true,
          false)), (String ((Ascii (true, false, false, false, false, true,
          true, false)), (String ((Ascii (false, true, true, true, false,
          true, true, false)), (String ((Ascii (true, true, false, false,
          false, true, true, false)), (String ((Ascii (true, false, true,
          false, false, true, true, false)), (String ((Ascii (false, false,
          true, true, false, true, true, false)), EmptyString)))))))))))))
   | _ ->
     sx_err (String ((Ascii (true, true, true, false, true, true, true,
       false)), (String ((Ascii (true, false, false, false, false, true,
       true, false)), (String ((Ascii (true, false, false, true, false, true,
       true, false)), (String ((Ascii (false, false, true, false, true, true,
       true, false)), EmptyString)))))))))

(** val nth_tgt : sx list -> nat -> n **)

let rec nth_tgt l w =
  match l with
  | [] -> N0
  | s :: r ->
    (match s with
     | SN t -> (match w with
                | O -> t
                | S k0 -> nth_tgt r k0)
     | _ -> (match w with
             | O -> N0
             | S k0 -> nth_tgt r k0))

(** val run_walk : sx -> sx **)

let run_walk = function
| SL l ->
  (match l with
   | [] ->
     sx_err (String ((Ascii (true, true, true, false, true, true, true,
       false)), (String ((Ascii (true, false, false, false, false, true,
       true, false)), (String ((Ascii (false, false, true, true, false, true,
       true, false)), (String ((Ascii (true, true, false, true, false, true,
       true, false)), EmptyString))))))))
   | s :: l0 ->
     (match s with
      | SN st ->
        (match l0 with
         | [] ->
           sx_err (String ((Ascii (true, true, true, false, true, true, true,
             false)), (String ((Ascii (true, false, false, false, false,
             true, true, false)), (String ((Ascii (false, false, true, true,
             false, true, true, false)), (String ((Ascii (true, true, false,
             true, false, true, true, false)), EmptyString))))))))
         | s0 :: l1 ->
           (match s0 with
            | SN nc ->
              (match l1 with
               | [] ->
                 sx_err (String ((Ascii (true, true, true, false, true, true,
                   true, false)), (String ((Ascii (true, false, false, false,
                   false, true, true, false)), (String ((Ascii (false, false,
                   true, true, false, true, true, false)), (String ((Ascii
                   (true, true, false, true, false, true, true, false)),
                   EmptyString))))))))
               | s1 :: l2 ->
                 (match s1 with
                  | SL tgts ->
                    (match l2 with
                     | [] ->
                       sx_err (String ((Ascii (true, true, true, false, true,
                         true, true, false)), (String ((Ascii (true, false,
                         false, false, false, true, true, false)), (String
                         ((Ascii (false, false, true, true, false, true,
                         true, false)), (String ((Ascii (true, true, false,
                         true, false, true, true, false)), EmptyString))))))))
                     | s2 :: l3 ->
                       (match s2 with
                        | SL ops ->
                          (match l3 with
                           | [] ->
                             let nconns = small nc in
                             SL
                             (run_ops1 (strat_of st) nconns (nth_tgt tgts) O
                               (length tgts) ops []
                               (init_state (fun _ -> N0)
                                 (if Nat.eqb nconns O then None else Some O))
                               [])
                           | _ :: _ ->
                             sx_err (String ((Ascii (true, true, true, false,
                               true, true, true, false)), (String ((Ascii
                               (true, false, false, false, false, true, true,
                               false)), (String ((Ascii (false, false, true,
                               true, false, true, true, false)), (String
                               ((Ascii (true, true, false, true, false, true,
                               true, false)), EmptyString)))))))))
                        | _ ->
                          sx_err (String ((Ascii (true, true, true, false,
                            true, true, true, false)), (String ((Ascii (true,
                            false, false, false, false, true, true, false)),
                            (String ((Ascii (false, false, true, true, false,
                            true, true, false)), (String ((Ascii (true, true,
                            false, true, false, true, true, false)),
                            EmptyString))))))))))
                  | _ ->
                    sx_err (String ((Ascii (true, true, true, false, true,
                      true, true, false)), (String ((Ascii (true, false,
                      false, false, false, true, true, false)), (String
                      ((Ascii (false, false, true, true, false, true, true,
                      false)), (String ((Ascii (true, true, false, true,
                      false, true, true, false)), EmptyString))))))))))
            | _ ->
              sx_err (String ((Ascii (true, true, true, false, true, true,
                true, false)), (String ((Ascii (true, false, false, false,
                false, true, true, false)), (String ((Ascii (false, false,
                true, true, false, true, true, false)), (String ((Ascii
                (true, true, false, true, false, true, true, false)),
                EmptyString))))))))))
      | _ ->
        sx_err (String ((Ascii (true, true, true, false, true, true, true,
          false)), (String ((Ascii (true, false, false, false, false, true,
          true, false)), (String ((Ascii (false, false, true, true, false,
          true, true, false)), (String ((Ascii (true, true, false, true,
          false, true, true, false)), EmptyString))))))))))
| _ ->
  sx_err (String ((Ascii (true, true, true, false, true, true, true, false)),
    (String ((Ascii (true, false, false, false, false, true, true, false)),
    (String ((Ascii (false, false, true, true, false, true, true, false)),
    (String ((Ascii (true, true, false, true, false, true, true, false)),
    EmptyString))))))))

(** val heads_of : sx list -> (nat * n) list **)

let rec heads_of = function
| [] -> []
| s :: t ->
  (match s with
   | SL l0 ->
     (match l0 with
      | [] -> []
      | s0 :: l1 ->
        (match s0 with
         | SN c ->
           (match l1 with
            | [] -> []
            | s1 :: l2 ->
              (match s1 with
               | SN h ->
                 (match l2 with
                  | [] -> ((small c), h) :: (heads_of t)
                  | _ :: _ -> [])
               | _ -> []))
         | _ -> []))
   | _ -> [])

(** val run_wait : sx -> sx **)

let run_wait = function
| SL l ->
  (match l with
   | [] ->
     sx_err (String ((Ascii (true, true, true, false, true, true, true,
       false)), (String ((Ascii (true, false, false, false, false, true,
       true, false)), (String ((Ascii (true, false, false, true, false, true,
       true, false)), (String ((Ascii (false, false, true, false, true, true,
       true, false)), (String ((Ascii (false, false, false, false, false,
       true, false, false)), (String ((Ascii (true, false, false, false,
       false, true, true, false)), (String ((Ascii (false, true, false,
       false, true, true, true, false)), (String ((Ascii (true, true, true,
       false, false, true, true, false)), (String ((Ascii (true, true, false,
       false, true, true, true, false)), EmptyString))))))))))))))))))
   | s :: l0 ->
     (match s with
      | SN tg ->
        (match l0 with
         | [] ->
           sx_err (String ((Ascii (true, true, true, false, true, true, true,
             false)), (String ((Ascii (true, false, false, false, false,
             true, true, false)), (String ((Ascii (true, false, false, true,
             false, true, true, false)), (String ((Ascii (false, false, true,
             false, true, true, true, false)), (String ((Ascii (false, false,
             false, false, false, true, false, false)), (String ((Ascii
             (true, false, false, false, false, true, true, false)), (String
             ((Ascii (false, true, false, false, true, true, true, false)),
             (String ((Ascii (true, true, true, false, false, true, true,
             false)), (String ((Ascii (true, true, false, false, true, true,
             true, false)), EmptyString))))))))))))))))))
         | s0 :: l1 ->
           (match s0 with
            | SN h1 ->
              (match l1 with
               | [] ->
                 sx_err (String ((Ascii (true, true, true, false, true, true,
                   true, false)), (String ((Ascii (true, false, false, false,
                   false, true, true, false)), (String ((Ascii (true, false,
                   false, true, false, true, true, false)), (String ((Ascii
                   (false, false, true, false, true, true, true, false)),
                   (String ((Ascii (false, false, false, false, false, true,
                   false, false)), (String ((Ascii (true, false, false,
                   false, false, true, true, false)), (String ((Ascii (false,
                   true, false, false, true, true, true, false)), (String
                   ((Ascii (true, true, true, false, false, true, true,
                   false)), (String ((Ascii (true, true, false, false, true,
                   true, true, false)), EmptyString))))))))))))))))))
               | s1 :: l2 ->
                 (match s1 with
                  | SL hs ->
                    (match l2 with
                     | [] ->
                       sx_err (String ((Ascii (true, true, true, false, true,
                         true, true, false)), (String ((Ascii (true, false,
                         false, false, false, true, true, false)), (String
                         ((Ascii (true, false, false, true, false, true,
                         true, false)), (String ((Ascii (false, false, true,
                         false, true, true, true, false)), (String ((Ascii
                         (false, false, false, false, false, true, false,
                         false)), (String ((Ascii (true, false, false, false,
                         false, true, true, false)), (String ((Ascii (false,
                         true, false, false, true, true, true, false)),
                         (String ((Ascii (true, true, true, false, false,
                         true, true, false)), (String ((Ascii (true, true,
                         false, false, true, true, true, false)),
                         EmptyString))))))))))))))))))
                     | s2 :: l3 ->
                       (match s2 with
                        | SB cancel ->
                          (match l3 with
                           | [] ->
                             wait_scenario BestPing (S (S O)) (fun _ -> tg)
                               (init_state (fun c ->
                                 if Nat.eqb c O then h1 else N0) (Some O))
                               (heads_of hs)
                               (if cancel then RCancel else RTimeout)
                           | _ :: _ ->
                             sx_err (String ((Ascii (true, true, true, false,
                               true, true, true, false)), (String ((Ascii
                               (true, false, false, false, false, true, true,
                               false)), (String ((Ascii (true, false, false,
                               true, false, true, true, false)), (String
                               ((Ascii (false, false, true, false, true,
                               true, true, false)), (String ((Ascii (false,
                               false, false, false, false, true, false,
                               false)), (String ((Ascii (true, false, false,
                               false, false, true, true, false)), (String
                               ((Ascii (false, true, false, false, true,
                               true, true, false)), (String ((Ascii (true,
                               true, true, false, false, true, true, false)),
                               (String ((Ascii (true, true, false, false,
                               true, true, true, false)),
                               EmptyString)))))))))))))))))))
                        | _ ->
                          sx_err (String ((Ascii (true, true, true, false,
                            true, true, true, false)), (String ((Ascii (true,
                            false, false, false, false, true, true, false)),
                            (String ((Ascii (true, false, false, true, false,
                            true, true, false)), (String ((Ascii (false,
                            false, true, false, true, true, true, false)),
                            (String ((Ascii (false, false, false, false,
                            false, true, false, false)), (String ((Ascii
                            (true, false, false, false, false, true, true,
                            false)), (String ((Ascii (false, true, false,
                            false, true, true, true, false)), (String ((Ascii
                            (true, true, true, false, false, true, true,
                            false)), (String ((Ascii (true, true, false,
                            false, true, true, true, false)),
                            EmptyString))))))))))))))))))))
                  | _ ->
                    sx_err (String ((Ascii (true, true, true, false, true,
                      true, true, false)), (String ((Ascii (true, false,
                      false, false, false, true, true, false)), (String
                      ((Ascii (true, false, false, true, false, true, true,
                      false)), (String ((Ascii (false, false, true, false,
                      true, true, true, false)), (String ((Ascii (false,
                      false, false, false, false, true, false, false)),
                      (String ((Ascii (true, false, false, false, false,
                      true, true, false)), (String ((Ascii (false, true,
                      false, false, true, true, true, false)), (String
                      ((Ascii (true, true, true, false, false, true, true,
                      false)), (String ((Ascii (true, true, false, false,
                      true, true, true, false)), EmptyString))))))))))))))))))))
            | _ ->
              sx_err (String ((Ascii (true, true, true, false, true, true,
                true, false)), (String ((Ascii (true, false, false, false,
                false, true, true, false)), (String ((Ascii (true, false,
                false, true, false, true, true, false)), (String ((Ascii
                (false, false, true, false, true, true, true, false)),
                (String ((Ascii (false, false, false, false, false, true,
                false, false)), (String ((Ascii (true, false, false, false,
                false, true, true, false)), (String ((Ascii (false, true,
                false, false, true, true, true, false)), (String ((Ascii
                (true, true, true, false, false, true, true, false)), (String
                ((Ascii (true, true, false, false, true, true, true, false)),
                EmptyString))))))))))))))))))))
      | _ ->
        sx_err (String ((Ascii (true, true, true, false, true, true, true,
          false)), (String ((Ascii (true, false, false, false, false, true,
          true, false)), (String ((Ascii (true, false, false, true, false,
          true, true, false)), (String ((Ascii (false, false, true, false,
          true, true, true, false)), (String ((Ascii (false, false, false,
          false, false, true, false, false)), (String ((Ascii (true, false,
          false, false, false, true, true, false)), (String ((Ascii (false,
          true, false, false, true, true, true, false)), (String ((Ascii
          (true, true, true, false, false, true, true, false)), (String
          ((Ascii (true, true, false, false, true, true, true, false)),
          EmptyString))))))))))))))))))))
| _ ->
  sx_err (String ((Ascii (true, true, true, false, true, true, true, false)),
    (String ((Ascii (true, false, false, false, false, true, true, false)),
    (String ((Ascii (true, false, false, true, false, true, true, false)),
    (String ((Ascii (false, false, true, false, true, true, true, false)),
    (String ((Ascii (false, false, false, false, false, true, false, false)),
    (String ((Ascii (true, false, false, false, false, true, true, false)),
    (String ((Ascii (false, true, false, false, true, true, true, false)),
    (String ((Ascii (true, true, true, false, false, true, true, false)),
    (String ((Ascii (true, true, false, false, true, true, true, false)),
    EmptyString))))))))))))))))))

(** val run_repro : sx -> sx **)

let run_repro _ =
  SA (String ((Ascii (true, true, true, true, false, true, true, false)),
    (String ((Ascii (true, true, false, true, false, true, true, false)),
    EmptyString))))

type bytes0 = n list

(** val pEdKeyLen : n **)

let pEdKeyLen =
  Npos (XI (XO XH))

(** val beqb : bytes0 -> bytes0 -> bool **)

let rec beqb a b =
  match a with
  | [] -> (match b with
           | [] -> true
           | _ :: _ -> false)
  | x :: a' ->
    (match b with
     | [] -> false
     | y :: b' -> (&&) (N.eqb x y) (beqb a' b'))

(** val bytes_of_string : string -> bytes0 **)

let rec bytes_of_string = function
| EmptyString -> []
| String (c, t) -> (n_of_ascii c) :: (bytes_of_string t)

(** val blen : bytes0 -> z **)

let blen b =
  Z.of_nat (length b)

(** val byte_at : z -> z -> n **)

let byte_at u k0 =
  Z.to_N
    (Z.modulo
      (Z.div u (Z.pow (Zpos (XO XH)) (Z.mul (Zpos (XO (XO (XO XH)))) k0)))
      (Zpos (XO (XO (XO (XO (XO (XO (XO (XO XH))))))))))

(** val be32 : z -> bytes0 **)

let be32 z0 =
  let u =
    Z.modulo z0 (Z.pow (Zpos (XO XH)) (Zpos (XO (XO (XO (XO (XO XH)))))))
  in
  (byte_at u (Zpos (XI XH))) :: ((byte_at u (Zpos (XO XH))) :: ((byte_at u
                                                                  (Zpos XH)) :: (
  (byte_at u Z0) :: [])))

(** val le0 : z -> bytes0 **)

let le0 z0 =
  let u =
    Z.modulo z0 (Z.pow (Zpos (XO XH)) (Zpos (XO (XO (XO (XO (XO XH)))))))
  in
  (byte_at u Z0) :: ((byte_at u (Zpos XH)) :: ((byte_at u (Zpos (XO XH))) :: (
  (byte_at u (Zpos (XI XH))) :: [])))

(** val le64 : z -> bytes0 **)

let le64 z0 =
  let u =
    Z.modulo z0 (Z.pow (Zpos (XO XH)) (Zpos (XO (XO (XO (XO (XO (XO XH))))))))
  in
  (byte_at u Z0) :: ((byte_at u (Zpos XH)) :: ((byte_at u (Zpos (XO XH))) :: (
  (byte_at u (Zpos (XI XH))) :: ((byte_at u (Zpos (XO (XO XH)))) :: (
  (byte_at u (Zpos (XI (XO XH)))) :: ((byte_at u (Zpos (XO (XI XH)))) :: (
  (byte_at u (Zpos (XI (XI XH)))) :: [])))))))

(** val be64 : z -> bytes0 **)

let be64 z0 =
  rev (le64 z0)

(** val be_val : bytes0 -> z **)

let be_val b =
  fold_left (fun a x ->
    Z.add (Z.mul a (Zpos (XO (XO (XO (XO (XO (XO (XO (XO XH))))))))))
      (Z.of_N x)) b Z0

(** val to_int64 : z -> z **)

let to_int64 u =
  if Z.ltb u (Z.pow (Zpos (XO XH)) (Zpos (XI (XI (XI (XI (XI XH)))))))
  then u
  else Z.sub u (Z.pow (Zpos (XO XH)) (Zpos (XO (XO (XO (XO (XO (XO XH))))))))

(** val be_min_fuel : nat -> n -> bytes0 -> bytes0 **)

let rec be_min_fuel fuel n0 acc =
  match fuel with
  | O -> acc
  | S f ->
    if N.eqb n0 N0
    then acc
    else be_min_fuel f
           (N.div n0 (Npos (XO (XO (XO (XO (XO (XO (XO (XO XH))))))))))
           ((N.modulo n0 (Npos (XO (XO (XO (XO (XO (XO (XO (XO XH)))))))))) :: acc)

(** val be_min : n -> bytes0 **)

let be_min n0 =
  be_min_fuel (S (N.to_nat (N.size n0))) n0 []

(** val nib : n -> n option **)

let nib c =
  if (&&) (N.leb (Npos (XO (XO (XO (XO (XI XH)))))) c)
       (N.leb c (Npos (XI (XO (XO (XI (XI XH)))))))
  then Some (N.sub c (Npos (XO (XO (XO (XO (XI XH)))))))
  else if (&&) (N.leb (Npos (XI (XO (XO (XO (XO (XI XH))))))) c)
            (N.leb c (Npos (XO (XI (XI (XO (XO (XI XH))))))))
       then Some (N.sub c (Npos (XI (XI (XI (XO (XI (XO XH))))))))
       else if (&&) (N.leb (Npos (XI (XO (XO (XO (XO (XO XH))))))) c)
                 (N.leb c (Npos (XO (XI (XI (XO (XO (XO XH))))))))
            then Some (N.sub c (Npos (XI (XI (XI (XO (XI XH)))))))
            else None

(** val hex_decode : bytes0 -> bytes0 option **)

let rec hex_decode = function
| [] -> Some []
| a :: l0 ->
  (match l0 with
   | [] -> None
   | b :: t ->
     (match nib a with
      | Some x ->
        (match nib b with
         | Some y ->
           (match hex_decode t with
            | Some r ->
              Some ((N.add (N.mul (Npos (XO (XO (XO (XO XH))))) x) y) :: r)
            | None -> None)
         | None -> None)
      | None -> None))

(** val hexdigit : n -> n **)

let hexdigit n0 =
  if N.ltb n0 (Npos (XO (XI (XO XH))))
  then N.add (Npos (XO (XO (XO (XO (XI XH)))))) n0
  else N.add (Npos (XI (XI (XI (XO (XI (XO XH))))))) n0

(** val hex_encode : bytes0 -> bytes0 **)

let rec hex_encode = function
| [] -> []
| x :: t ->
  (hexdigit (N.div x (Npos (XO (XO (XO (XO XH))))))) :: ((hexdigit
                                                           (N.modulo x (Npos
                                                             (XO (XO (XO (XO
                                                             XH))))))) :: 
    (hex_encode t))

(** val digit : n -> z option **)

let digit c =
  if (&&) (N.leb (Npos (XO (XO (XO (XO (XI XH)))))) c)
       (N.leb c (Npos (XI (XO (XO (XI (XI XH)))))))
  then Some (Z.sub (Z.of_N c) (Zpos (XO (XO (XO (XO (XI XH)))))))
  else None

(** val digits_val : z -> bytes0 -> z option **)

let rec digits_val acc = function
| [] -> Some acc
| c :: t ->
  (match digit c with
   | Some d -> digits_val (Z.add (Z.mul acc (Zpos (XO (XI (XO XH))))) d) t
   | None -> None)

(** val parse_int32 : bytes0 -> z option **)

let parse_int32 s = match s with
| [] ->
  let neg = false in
  (match s with
   | [] -> None
   | _ :: _ ->
     (match digits_val Z0 s with
      | Some n0 ->
        if neg
        then if Z.leb n0 (Z.pow (Zpos (XO XH)) (Zpos (XI (XI (XI (XI XH))))))
             then Some (Z.opp n0)
             else None
        else if Z.ltb n0 (Z.pow (Zpos (XO XH)) (Zpos (XI (XI (XI (XI XH))))))
             then Some n0
             else None
      | None -> None))
| n0 :: t ->
  (match n0 with
   | N0 ->
     let neg = false in
     (match s with
      | [] -> None
      | _ :: _ ->
        (match digits_val Z0 s with
         | Some n1 ->
           if neg
           then if Z.leb n1
                     (Z.pow (Zpos (XO XH)) (Zpos (XI (XI (XI (XI XH))))))
                then Some (Z.opp n1)
                else None
           else if Z.ltb n1
                     (Z.pow (Zpos (XO XH)) (Zpos (XI (XI (XI (XI XH))))))
                then Some n1
                else None
         | None -> None))
   | Npos p ->
     (match p with
      | XI p0 ->
        (match p0 with
         | XI p1 ->
           (match p1 with
            | XO p2 ->
              (match p2 with
               | XI p3 ->
                 (match p3 with
                  | XO p4 ->
                    (match p4 with
                     | XH ->
                       let neg = false in
                       (match t with
                        | [] -> None
                        | _ :: _ ->
                          (match digits_val Z0 t with
                           | Some n1 ->
                             if neg
                             then if Z.leb n1
                                       (Z.pow (Zpos (XO XH)) (Zpos (XI (XI
                                         (XI (XI XH))))))
                                  then Some (Z.opp n1)
                                  else None
                             else if Z.ltb n1
                                       (Z.pow (Zpos (XO XH)) (Zpos (XI (XI
                                         (XI (XI XH))))))
                                  then Some n1
                                  else None
                           | None -> None))
                     | _ ->
                       let neg = false in
                       (match s with
                        | [] -> None
                        | _ :: _ ->
                          (match digits_val Z0 s with
                           | Some n1 ->
                             if neg
                             then if Z.leb n1
                                       (Z.pow (Zpos (XO XH)) (Zpos (XI (XI
                                         (XI (XI XH))))))
                                  then Some (Z.opp n1)
                                  else None
                             else if Z.ltb n1
                                       (Z.pow (Zpos (XO XH)) (Zpos (XI (XI
                                         (XI (XI XH))))))
                                  then Some n1
                                  else None
                           | None -> None)))
                  | _ ->
                    let neg = false in
                    (match s with
                     | [] -> None
                     | _ :: _ ->
                       (match digits_val Z0 s with
                        | Some n1 ->
                          if neg
                          then if Z.leb n1
                                    (Z.pow (Zpos (XO XH)) (Zpos (XI (XI (XI
                                      (XI XH))))))
                               then Some (Z.opp n1)
                               else None
                          else if Z.ltb n1
                                    (Z.pow (Zpos (XO XH)) (Zpos (XI (XI (XI
                                      (XI XH))))))
                               then Some n1
                               else None
                        | None -> None)))
               | _ ->
                 let neg = false in
                 (match s with
                  | [] -> None
                  | _ :: _ ->
                    (match digits_val Z0 s with
                     | Some n1 ->
                       if neg
                       then if Z.leb n1
                                 (Z.pow (Zpos (XO XH)) (Zpos (XI (XI (XI (XI
                                   XH))))))
                            then Some (Z.opp n1)
                            else None
                       else if Z.ltb n1
                                 (Z.pow (Zpos (XO XH)) (Zpos (XI (XI (XI (XI
                                   XH))))))
                            then Some n1
                            else None
                     | None -> None)))
            | _ ->
              let neg = false in
              (match s with
               | [] -> None
               | _ :: _ ->
                 (match digits_val Z0 s with
                  | Some n1 ->
                    if neg
                    then if Z.leb n1
                              (Z.pow (Zpos (XO XH)) (Zpos (XI (XI (XI (XI
                                XH))))))
                         then Some (Z.opp n1)
                         else None
                    else if Z.ltb n1
                              (Z.pow (Zpos (XO XH)) (Zpos (XI (XI (XI (XI
                                XH))))))
                         then Some n1
                         else None
                  | None -> None)))
         | XO p1 ->
           (match p1 with
            | XI p2 ->
              (match p2 with
               | XI p3 ->
                 (match p3 with
                  | XO p4 ->
                    (match p4 with
                     | XH ->
                       let neg = true in
                       (match t with
                        | [] -> None
                        | _ :: _ ->
                          (match digits_val Z0 t with
                           | Some n1 ->
                             if neg
                             then if Z.leb n1
                                       (Z.pow (Zpos (XO XH)) (Zpos (XI (XI
                                         (XI (XI XH))))))
                                  then Some (Z.opp n1)
                                  else None
                             else if Z.ltb n1
                                       (Z.pow (Zpos (XO XH)) (Zpos (XI (XI
                                         (XI (XI XH))))))
                                  then Some n1
                                  else None
                           | None -> None))
                     | _ ->
                       let neg = false in
                       (match s with
                        | [] -> None
                        | _ :: _ ->
                          (match digits_val Z0 s with
                           | Some n1 ->
                             if neg
                             then if Z.leb n1
                                       (Z.pow (Zpos (XO XH)) (Zpos (XI (XI
                                         (XI (XI XH))))))
                                  then Some (Z.opp n1)
                                  else None
                             else if Z.ltb n1
                                       (Z.pow (Zpos (XO XH)) (Zpos (XI (XI
                                         (XI (XI XH))))))
                                  then Some n1
                                  else None
                           | None -> None)))
                  | _ ->
                    let neg = false in
                    (match s with
                     | [] -> None
                     | _ :: _ ->
                       (match digits_val Z0 s with
                        | Some n1 ->
                          if neg
                          then if Z.leb n1
                                    (Z.pow (Zpos (XO XH)) (Zpos (XI (XI (XI
                                      (XI XH))))))
                               then Some (Z.opp n1)
                               else None
                          else if Z.ltb n1
                                    (Z.pow (Zpos (XO XH)) (Zpos (XI (XI (XI
                                      (XI XH))))))
                               then Some n1
                               else None
                        | None -> None)))
               | _ ->
                 let neg = false in
                 (match s with
                  | [] -> None
                  | _ :: _ ->
                    (match digits_val Z0 s with
                     | Some n1 ->
                       if neg
                       then if Z.leb n1
                                 (Z.pow (Zpos (XO XH)) (Zpos (XI (XI (XI (XI
                                   XH))))))
                            then Some (Z.opp n1)
                            else None
                       else if Z.ltb n1
                                 (Z.pow (Zpos (XO XH)) (Zpos (XI (XI (XI (XI
                                   XH))))))
                            then Some n1
                            else None
                     | None -> None)))
            | _ ->
              let neg = false in
              (match s with
               | [] -> None
               | _ :: _ ->
                 (match digits_val Z0 s with
                  | Some n1 ->
                    if neg
                    then if Z.leb n1
                              (Z.pow (Zpos (XO XH)) (Zpos (XI (XI (XI (XI
                                XH))))))
                         then Some (Z.opp n1)
                         else None
                    else if Z.ltb n1
                              (Z.pow (Zpos (XO XH)) (Zpos (XI (XI (XI (XI
                                XH))))))
                         then Some n1
                         else None
                  | None -> None)))
         | XH ->
           let neg = false in
           (match s with
            | [] -> None
            | _ :: _ ->
              (match digits_val Z0 s with
               | Some n1 ->
                 if neg
                 then if Z.leb n1
                           (Z.pow (Zpos (XO XH)) (Zpos (XI (XI (XI (XI
                             XH))))))
                      then Some (Z.opp n1)
                      else None
                 else if Z.ltb n1
                           (Z.pow (Zpos (XO XH)) (Zpos (XI (XI (XI (XI
                             XH))))))
                      then Some n1
                      else None
               | None -> None)))
      | _ ->
        let neg = false in
        (match s with
         | [] -> None
         | _ :: _ ->
           (match digits_val Z0 s with
            | Some n1 ->
              if neg
              then if Z.leb n1
                        (Z.pow (Zpos (XO XH)) (Zpos (XI (XI (XI (XI XH))))))
                   then Some (Z.opp n1)
                   else None
              else if Z.ltb n1
                        (Z.pow (Zpos (XO XH)) (Zpos (XI (XI (XI (XI XH))))))
                   then Some n1
                   else None
            | None -> None))))

(** val split_colon : bytes0 -> bytes0 -> bytes0 list **)

let rec split_colon cur = function
| [] -> (rev cur) :: []
| c :: t ->
  if N.eqb c (Npos (XO (XI (XO (XI (XI XH))))))
  then (rev cur) :: (split_colon [] t)
  else split_colon (c :: cur) t

type proof = { p_address : bytes0; p_ts : z; p_domain : bytes0;
               p_signature : bytes0; p_payload : bytes0; p_state_init : 
               bytes0 }

type parsed0 = { m_wc : z; m_addr : bytes0; m_ts : z; m_domain : bytes0;
                 m_sig : bytes0; m_payload : bytes0 }

(** val tonProofPrefix : bytes0 **)

let tonProofPrefix =
  bytes_of_string (String ((Ascii (false, false, true, false, true, true,
    true, false)), (String ((Ascii (true, true, true, true, false, true,
    true, false)), (String ((Ascii (false, true, true, true, false, true,
    true, false)), (String ((Ascii (true, false, true, true, false, true,
    false, false)), (String ((Ascii (false, false, false, false, true, true,
    true, false)), (String ((Ascii (false, true, false, false, true, true,
    true, false)), (String ((Ascii (true, true, true, true, false, true,
    true, false)), (String ((Ascii (true, true, true, true, false, true,
    true, false)), (String ((Ascii (false, true, true, false, false, true,
    true, false)), (String ((Ascii (true, false, true, true, false, true,
    false, false)), (String ((Ascii (true, false, false, true, false, true,
    true, false)), (String ((Ascii (false, false, true, false, true, true,
    true, false)), (String ((Ascii (true, false, true, false, false, true,
    true, false)), (String ((Ascii (true, false, true, true, false, true,
    true, false)), (String ((Ascii (true, false, true, true, false, true,
    false, false)), (String ((Ascii (false, true, true, false, true, true,
    true, false)), (String ((Ascii (false, true, false, false, true, true,
    false, false)), (String ((Ascii (true, true, true, true, false, true,
    false, false)), EmptyString))))))))))))))))))))))))))))))))))))

(** val tonConnectPrefix : bytes0 **)

let tonConnectPrefix =
  bytes_of_string (String ((Ascii (false, false, true, false, true, true,
    true, false)), (String ((Ascii (true, true, true, true, false, true,
    true, false)), (String ((Ascii (false, true, true, true, false, true,
    true, false)), (String ((Ascii (true, false, true, true, false, true,
    false, false)), (String ((Ascii (true, true, false, false, false, true,
    true, false)), (String ((Ascii (true, true, true, true, false, true,
    true, false)), (String ((Ascii (false, true, true, true, false, true,
    true, false)), (String ((Ascii (false, true, true, true, false, true,
    true, false)), (String ((Ascii (true, false, true, false, false, true,
    true, false)), (String ((Ascii (true, true, false, false, false, true,
    true, false)), (String ((Ascii (false, false, true, false, true, true,
    true, false)), EmptyString))))))))))))))))))))))

(** val defaultLifeTimeProof : z **)

let defaultLifeTimeProof =
  Zpos (XO (XO (XI (XI (XO (XI (XO (XO XH))))))))

(** val defaultLifeTimePayload : z **)

let defaultLifeTimePayload =
  Zpos (XO (XO (XI (XI (XO (XI (XO (XO XH))))))))

(** val lifetime_or_default : z -> z -> z **)

let lifetime_or_default configured dflt =
  if Z.eqb configured Z0 then dflt else configured

(** val convert : (bytes0 -> bytes0 option) -> proof -> parsed0 res **)

let convert b64 tp =
  match split_colon [] tp.p_address with
  | [] -> Err eOther
  | w :: l ->
    (match l with
     | [] -> Err eOther
     | a :: l0 ->
       (match l0 with
        | [] ->
          (match parse_int32 w with
           | Some wc ->
             (match hex_decode a with
              | Some addr ->
                (match b64 tp.p_signature with
                 | Some sig0 ->
                   Ok { m_wc = wc; m_addr = addr; m_ts = tp.p_ts; m_domain =
                     tp.p_domain; m_sig = sig0; m_payload = tp.p_payload }
                 | None -> Err eOther)
              | None -> Err eInvalidHex)
           | None -> Err eOther)
        | _ :: _ -> Err eOther))

(** val index_colon_go : bytes0 -> bytes0 -> (bytes0 * bytes0) option **)

let rec index_colon_go cur = function
| [] -> None
| c :: t ->
  if N.eqb c (Npos (XO (XI (XO (XI (XI XH))))))
  then Some ((rev cur), t)
  else index_colon_go (c :: cur) t

(** val index_colon : bytes0 -> (bytes0 * bytes0) option **)

let index_colon l =
  index_colon_go [] l

(** val pad_hex64 : bytes0 -> bytes0 **)

let pad_hex64 h =
  app
    (repeat (Npos (XO (XO (XO (XO (XI XH))))))
      (sub (S (S (S (S (S (S (S (S (S (S (S (S (S (S (S (S (S (S (S (S (S (S
        (S (S (S (S (S (S (S (S (S (S (S (S (S (S (S (S (S (S (S (S (S (S (S
        (S (S (S (S (S (S (S (S (S (S (S (S (S (S (S (S (S (S (S
        O))))))))))))))))))))))))))))))))))))))))))))))))))))))))))))))))
        (length h))) h

(** val parse_account_id : bytes0 -> (z * bytes0) res **)

let parse_account_id s =
  match index_colon s with
  | Some p ->
    let (w, h) = p in
    (match parse_int32 w with
     | Some wc ->
       (match hex_decode (pad_hex64 h) with
        | Some a ->
          if Nat.eqb (length a) (S (S (S (S (S (S (S (S (S (S (S (S (S (S (S
               (S (S (S (S (S (S (S (S (S (S (S (S (S (S (S (S (S
               O))))))))))))))))))))))))))))))))
          then Ok (wc, a)
          else Err eOther
        | None -> Err eInvalidHex)
     | None -> Err eOther)
  | None -> Err eOther

(** val message_layout : parsed0 -> bytes0 **)

let message_layout p =
  app tonProofPrefix
    (app (be32 p.m_wc)
      (app p.m_addr
        (app (le0 (blen p.m_domain))
          (app p.m_domain (app (le64 p.m_ts) p.m_payload)))))

(** val create_message : (bytes0 -> bytes0) -> parsed0 -> bytes0 **)

let create_message h p =
  h
    (app ((Npos (XI (XI (XI (XI (XI (XI (XI XH)))))))) :: ((Npos (XI (XI (XI
      (XI (XI (XI (XI XH)))))))) :: []))
      (app tonConnectPrefix (h (message_layout p))))

(** val unixToInternal : z **)

let unixToInternal =
  Zpos (XO (XO (XO (XO (XO (XO (XO (XO (XI (XI (XI (XO (XI (XI (XI (XI (XI
    (XO (XO (XO (XI (XO (XO (XI (XI (XI (XI (XO (XI (XI (XI (XO (XO (XI (XI
    XH)))))))))))))))))))))))))))))))))))

(** val wrap64 : z -> z **)

let wrap64 z0 =
  Z.sub
    (Z.modulo
      (Z.add z0 (Z.pow (Zpos (XO XH)) (Zpos (XI (XI (XI (XI (XI XH))))))))
      (Z.pow (Zpos (XO XH)) (Zpos (XO (XO (XO (XO (XO (XO XH)))))))))
    (Z.pow (Zpos (XO XH)) (Zpos (XI (XI (XI (XI (XI XH)))))))

(** val clamp64 : z -> z **)

let clamp64 z0 =
  Z.max (Z.opp (Z.pow (Zpos (XO XH)) (Zpos (XI (XI (XI (XI (XI XH))))))))
    (Z.min
      (Z.sub (Z.pow (Zpos (XO XH)) (Zpos (XI (XI (XI (XI (XI XH))))))) (Zpos
        XH)) z0)

(** val giga : z **)

let giga =
  Zpos (XO (XO (XO (XO (XO (XO (XO (XO (XO (XI (XO (XI (XO (XO (XI (XI (XO
    (XI (XO (XI (XI (XO (XO (XI (XI (XI (XO (XI (XI
    XH)))))))))))))))))))))))))))))

(** val since : z -> z -> z **)

let since now ts =
  let s = Z.div now giga in
  let ns = Z.modulo now giga in
  let tsi = Z.sub (wrap64 (Z.add ts unixToInternal)) unixToInternal in
  clamp64 (Z.add (Z.mul (Z.sub s tsi) giga) ns)

(** val expired : z -> z -> z -> bool **)

let expired now ts lifetime =
  Z.gtb (since now ts) (wrap64 (Z.mul lifetime giga))

(** val generate_payload :
    (bytes0 -> bytes0 -> bytes0) -> bytes0 -> bytes0 -> z -> z -> bytes0 **)

let generate_payload hmac secret nonce lifetime now =
  let body = app nonce (be64 (Z.div (Z.add now lifetime) giga)) in
  hex_encode
    (firstn (S (S (S (S (S (S (S (S (S (S (S (S (S (S (S (S (S (S (S (S (S (S
      (S (S (S (S (S (S (S (S (S (S O))))))))))))))))))))))))))))))))
      (app body (hmac secret body)))

(** val check_payload :
    (bytes0 -> bytes0 -> bytes0) -> bytes0 -> z -> z -> bytes0 -> bool res **)

let check_payload hmac secret lifetime now payload =
  match hex_decode payload with
  | Some b ->
    if negb
         (Nat.eqb (length b) (S (S (S (S (S (S (S (S (S (S (S (S (S (S (S (S
           (S (S (S (S (S (S (S (S (S (S (S (S (S (S (S (S
           O)))))))))))))))))))))))))))))))))
    then Ok false
    else let mac =
           hmac secret
             (firstn (S (S (S (S (S (S (S (S (S (S (S (S (S (S (S (S
               O)))))))))))))))) b)
         in
         if Nat.ltb (length mac) (S (S (S (S (S (S (S (S (S (S (S (S (S (S (S
              (S O))))))))))))))))
         then Panic pSlice
         else if negb
                   (beqb
                     (skipn (S (S (S (S (S (S (S (S (S (S (S (S (S (S (S (S
                       O)))))))))))))))) b)
                     (firstn (S (S (S (S (S (S (S (S (S (S (S (S (S (S (S (S
                       O)))))))))))))))) mac))
              then Ok false
              else Ok
                     (negb
                       (expired now
                         (to_int64
                           (be_val
                             (firstn (S (S (S (S (S (S (S (S O))))))))
                               (skipn (S (S (S (S (S (S (S (S O)))))))) b))))
                         lifetime))
  | None -> Ok false

(** val static_domain : bytes0 -> bytes0 -> bool res **)

let static_domain d s =
  Ok (beqb s d)

type stk =
| StTiny of z
| StInt of z
| StOther

type exec_result =
| ExErr
| ExRet of n * stk list

(** val key_of_int : z -> bytes0 option **)

let key_of_int z0 =
  let b = be_min (Z.abs_N z0) in
  let l = length b in
  if (||)
       (Nat.ltb l (S (S (S (S (S (S (S (S (S (S (S (S (S (S (S (S (S (S (S (S
         (S (S (S (S O)))))))))))))))))))))))))
       (Nat.ltb (S (S (S (S (S (S (S (S (S (S (S (S (S (S (S (S (S (S (S (S
         (S (S (S (S (S (S (S (S (S (S (S (S
         O)))))))))))))))))))))))))))))))) l)
  then None
  else Some
         (app
           (repeat N0
             (sub (S (S (S (S (S (S (S (S (S (S (S (S (S (S (S (S (S (S (S (S
               (S (S (S (S (S (S (S (S (S (S (S (S
               O)))))))))))))))))))))))))))))))) l)) b)

(** val get_wallet_pubkey : exec_result -> bytes0 option **)

let get_wallet_pubkey = function
| ExErr -> None
| ExRet (code, st) ->
  if negb ((||) (N.eqb code N0) (N.eqb code (Npos XH)))
  then None
  else (match st with
        | [] -> None
        | s :: l ->
          (match s with
           | StTiny z0 -> (match l with
                           | [] -> key_of_int z0
                           | _ :: _ -> None)
           | StInt z0 -> (match l with
                          | [] -> key_of_int z0
                          | _ :: _ -> None)
           | StOther -> None))

type cell1 =
| Cell1 of n * bool list * cell1 list * bytes0 option

(** val c_ty : cell1 -> n **)

let c_ty = function
| Cell1 (t, _, _, _) -> t

(** val c_bits : cell1 -> bool list **)

let c_bits = function
| Cell1 (_, b, _, _) -> b

(** val c_refs : cell1 -> cell1 list **)

let c_refs = function
| Cell1 (_, _, r, _) -> r

(** val c_hash : cell1 -> bytes0 option **)

let c_hash = function
| Cell1 (_, _, _, h) -> h

(** val tyPruned : n **)

let tyPruned =
  Npos XH

(** val tyLibrary : n **)

let tyLibrary =
  Npos (XO XH)

(** val empty_cell_hash : bytes0 **)

let empty_cell_hash =
  (Npos (XO (XI (XI (XO (XI (XO (XO XH)))))))) :: ((Npos (XO (XI (XO (XO (XO
    (XI (XO XH)))))))) :: ((Npos (XO (XI (XI (XO (XI (XO (XO
    XH)))))))) :: ((Npos (XO (XI (XO (XO (XI (XO (XI XH)))))))) :: ((Npos (XO
    (XO (XI (XO (XO XH)))))) :: ((Npos (XO (XI (XO (XO (XI (XI (XI
    XH)))))))) :: ((Npos (XI (XO (XI (XO (XO (XO (XO XH)))))))) :: ((Npos (XO
    (XI (XI (XO (XO (XO (XI XH)))))))) :: ((Npos (XI (XI (XO (XI (XI (XI
    XH))))))) :: ((Npos (XO (XI (XI (XI (XO (XI (XI XH)))))))) :: ((Npos (XI
    (XI (XO (XO (XI (XO (XO XH)))))))) :: ((Npos (XI (XI (XO (XO (XO (XO (XI
    XH)))))))) :: ((Npos (XI (XI (XI XH)))) :: ((Npos (XO (XI (XO (XI (XO (XO
    (XO XH)))))))) :: ((Npos (XO (XO (XO (XO (XI XH)))))) :: ((Npos (XI (XO
    (XO (XO (XI (XO (XO XH)))))))) :: ((Npos (XI (XI (XI (XO (XI (XO
    XH))))))) :: ((Npos (XO (XO (XO (XO (XI (XI (XI XH)))))))) :: ((Npos (XO
    (XI (XO (XI (XI (XO (XI XH)))))))) :: ((Npos (XI (XI (XO (XO (XO (XI (XO
    XH)))))))) :: ((Npos (XI (XO (XI (XI (XI (XO XH))))))) :: ((Npos (XI (XO
    (XI (XO (XO (XO (XI XH)))))))) :: ((Npos (XO (XO (XO (XI (XI (XI (XO
    XH)))))))) :: ((Npos (XO (XI (XI (XI (XI (XI XH))))))) :: ((Npos (XI (XO
    (XO (XO (XO (XO XH))))))) :: ((Npos (XI (XI (XO XH)))) :: ((Npos (XO (XO
    (XO (XI (XI (XI XH))))))) :: ((Npos (XI (XI (XO (XO (XO (XI
    XH))))))) :: ((Npos (XO (XI (XO XH)))) :: ((Npos (XI (XO (XO
    XH)))) :: ((Npos (XI (XI (XI (XI (XO (XO (XI XH)))))))) :: ((Npos (XI (XI
    (XI (XO (XO (XO (XI XH)))))))) :: [])))))))))))))))))))))))))))))))

(** val zero_cell : cell1 **)

let zero_cell =
  Cell1 (N0, [], [], (Some empty_cell_hash))

type rd = bool list * cell1 list

(** val rd_bit : rd -> (bool * rd) res **)

let rd_bit r =
  match fst r with
  | [] -> Err eNotEnoughBits
  | b :: t -> Ok (b, (t, (snd r)))

(** val rd_skip : nat -> rd -> rd res **)

let rd_skip n0 r =
  if Nat.ltb (length (fst r)) n0
  then Err eNotEnoughBits
  else Ok ((skipn n0 (fst r)), (snd r))

(** val rd_ref : rd -> (cell1 * rd) res **)

let rd_ref r =
  match snd r with
  | [] -> Err eNotEnoughRefs
  | c :: t -> Ok (c, ((fst r), t))

(** val rd_maybe_ref : rd -> (cell1 option * rd) res **)

let rd_maybe_ref r =
  bind (rd_bit r) (fun pat ->
    let (b, r1) = pat in
    if b
    then bind (rd_ref r1) (fun pat0 ->
           let (c, r2) = pat0 in
           Ok ((Some (if N.eqb (c_ty c) tyPruned then zero_cell else c)), r2))
    else Ok (None, r1))

(** val parse_state_init :
    (cell1 -> bool) -> cell1 -> (cell1 option * cell1 option) res **)

let parse_state_init lib_ok root =
  if N.eqb (c_ty root) tyLibrary
  then Err eOther
  else bind (rd_bit ((c_bits root), (c_refs root))) (fun pat ->
         let (sd, r1) = pat in
         bind (if sd then rd_skip (S (S (S (S (S O))))) r1 else Ok r1)
           (fun r2 ->
           bind (rd_bit r2) (fun pat0 ->
             let (sp, r3) = pat0 in
             bind (if sp then rd_skip (S (S O)) r3 else Ok r3) (fun r4 ->
               bind (rd_maybe_ref r4) (fun pat1 ->
                 let (code, r5) = pat1 in
                 bind (rd_maybe_ref r5) (fun pat2 ->
                   let (data, r6) = pat2 in
                   bind (rd_bit r6) (fun pat3 ->
                     let (lb, r7) = pat3 in
                     if lb
                     then bind (rd_ref r7) (fun _ ->
                            if lib_ok root
                            then Ok (code, data)
                            else Err eOther)
                     else Ok (code, data))))))))

type layout = { l_off : nat; l_dict : bool }

(** val bytes_of_bits1 : nat -> bool list -> bytes0 **)

let rec bytes_of_bits1 fuel l =
  match fuel with
  | O -> []
  | S f ->
    (n_of_bits (firstn (S (S (S (S (S (S (S (S O)))))))) l)) :: (bytes_of_bits1
                                                                  f
                                                                  (skipn (S
                                                                    (S (S (S
                                                                    (S (S (S
                                                                    (S
                                                                    O))))))))
                                                                    l))

(** val data_key : (cell1 -> bool) -> layout -> cell1 -> bytes0 res **)

let data_key ext_ok l d =
  if N.eqb (c_ty d) tyLibrary
  then Err eOther
  else if Nat.ltb (length (c_bits d))
            (add l.l_off (S (S (S (S (S (S (S (S (S (S (S (S (S (S (S (S (S
              (S (S (S (S (S (S (S (S (S (S (S (S (S (S (S (S (S (S (S (S (S
              (S (S (S (S (S (S (S (S (S (S (S (S (S (S (S (S (S (S (S (S (S
              (S (S (S (S (S (S (S (S (S (S (S (S (S (S (S (S (S (S (S (S (S
              (S (S (S (S (S (S (S (S (S (S (S (S (S (S (S (S (S (S (S (S (S
              (S (S (S (S (S (S (S (S (S (S (S (S (S (S (S (S (S (S (S (S (S
              (S (S (S (S (S (S (S (S (S (S (S (S (S (S (S (S (S (S (S (S (S
              (S (S (S (S (S (S (S (S (S (S (S (S (S (S (S (S (S (S (S (S (S
              (S (S (S (S (S (S (S (S (S (S (S (S (S (S (S (S (S (S (S (S (S
              (S (S (S (S (S (S (S (S (S (S (S (S (S (S (S (S (S (S (S (S (S
              (S (S (S (S (S (S (S (S (S (S (S (S (S (S (S (S (S (S (S (S (S
              (S (S (S (S (S (S (S (S (S (S (S (S (S (S (S (S (S (S (S (S (S
              (S (S (S (S (S (S (S (S
              O)))))))))))))))))))))))))))))))))))))))))))))))))))))))))))))))))))))))))))))))))))))))))))))))))))))))))))))))))))))))))))))))))))))))))))))))))))))))))))))))))))))))))))))))))))))))))))))))))))))))))))))))))))))))))))))))))))))))))))))))))))))))))))))))))
       then Err eNotEnoughBits
       else let key =
              bytes_of_bits1 (S (S (S (S (S (S (S (S (S (S (S (S (S (S (S (S
                (S (S (S (S (S (S (S (S (S (S (S (S (S (S (S (S
                O)))))))))))))))))))))))))))))))) (skipn l.l_off (c_bits d))
            in
            if l.l_dict
            then (match skipn
                          (add l.l_off (S (S (S (S (S (S (S (S (S (S (S (S (S
                            (S (S (S (S (S (S (S (S (S (S (S (S (S (S (S (S
                            (S (S (S (S (S (S (S (S (S (S (S (S (S (S (S (S
                            (S (S (S (S (S (S (S (S (S (S (S (S (S (S (S (S
                            (S (S (S (S (S (S (S (S (S (S (S (S (S (S (S (S
                            (S (S (S (S (S (S (S (S (S (S (S (S (S (S (S (S
                            (S (S (S (S (S (S (S (S (S (S (S (S (S (S (S (S
                            (S (S (S (S (S (S (S (S (S (S (S (S (S (S (S (S
                            (S (S (S (S (S (S (S (S (S (S (S (S (S (S (S (S
                            (S (S (S (S (S (S (S (S (S (S (S (S (S (S (S (S
                            (S (S (S (S (S (S (S (S (S (S (S (S (S (S (S (S
                            (S (S (S (S (S (S (S (S (S (S (S (S (S (S (S (S
                            (S (S (S (S (S (S (S (S (S (S (S (S (S (S (S (S
                            (S (S (S (S (S (S (S (S (S (S (S (S (S (S (S (S
                            (S (S (S (S (S (S (S (S (S (S (S (S (S (S (S (S
                            (S (S (S (S (S (S (S (S (S (S (S (S (S (S (S (S
                            (S (S (S
                            O)))))))))))))))))))))))))))))))))))))))))))))))))))))))))))))))))))))))))))))))))))))))))))))))))))))))))))))))))))))))))))))))))))))))))))))))))))))))))))))))))))))))))))))))))))))))))))))))))))))))))))))))))))))))))))))))))))))))))))))))))))))))))))))))))
                          (c_bits d) with
                  | [] -> Err eNotEnoughBits
                  | b :: _ ->
                    if b
                    then (match c_refs d with
                          | [] -> Err eNotEnoughRefs
                          | _ :: _ -> if ext_ok d then Ok key else Err eOther)
                    else Ok key)
            else Ok key

type known_table = (bytes0 * layout option) list

(** val lookup : bytes0 -> known_table -> layout option option **)

let rec lookup h = function
| [] -> None
| p :: t' -> let (k0, v) = p in if beqb h k0 then Some v else lookup h t'

(** val parse_state_init_key :
    (bytes0 -> cell1 list res) -> (cell1 -> bool) -> (cell1 -> bool) ->
    known_table -> bytes0 -> bytes0 res **)

let parse_state_init_key boc lib_ok ext_ok known si =
  bind (boc si) (fun cells ->
    match cells with
    | [] -> Err eOther
    | root :: l ->
      (match l with
       | [] ->
         bind (parse_state_init lib_ok root) (fun pat ->
           let (code, data) = pat in
           (match code with
            | Some c ->
              (match data with
               | Some d ->
                 (match c_hash c with
                  | Some h ->
                    (match lookup h known with
                     | Some o ->
                       (match o with
                        | Some l0 -> data_key ext_ok l0 d
                        | None -> Err eOther)
                     | None -> Err eOther)
                  | None -> Err eOther)
               | None -> Err eOther)
            | None -> Err eOther))
       | _ :: _ -> Err eOther))

(** val compare_state_init :
    (bytes0 -> cell1 list res) -> bytes0 -> bytes0 -> bool res **)

let compare_state_init boc addr si =
  bind (boc si) (fun cells ->
    match cells with
    | [] -> Err eOther
    | root :: l ->
      (match l with
       | [] ->
         (match c_hash root with
          | Some h -> Ok (beqb h addr)
          | None -> Err eOther)
       | _ :: _ -> Err eOther))

(** val ed_verify :
    (bytes0 -> bytes0 -> bytes0 -> bool) -> bytes0 -> bytes0 -> bytes0 ->
    bool res **)

let ed_verify verify pk msg0 sig0 =
  if Nat.eqb (length pk) (S (S (S (S (S (S (S (S (S (S (S (S (S (S (S (S (S
       (S (S (S (S (S (S (S (S (S (S (S (S (S (S (S
       O))))))))))))))))))))))))))))))))
  then Ok (verify pk msg0 sig0)
  else Panic pEdKeyLen

type key_source =
| FromGetMethod
| FromStateInit

(** val wallet_key :
    (bytes0 -> cell1 list res) -> (cell1 -> bool) -> (cell1 -> bool) ->
    known_table -> ((z * bytes0) -> exec_result) -> (z * bytes0) -> bytes0 ->
    (bytes0 * key_source) res **)

let wallet_key boc lib_ok ext_ok known exec0 acc si =
  match get_wallet_pubkey (exec0 acc) with
  | Some k0 -> Ok (k0, FromGetMethod)
  | None ->
    (match si with
     | [] -> Err eOther
     | _ :: _ ->
       bind (compare_state_init boc (snd acc) si) (fun ok ->
         if negb ok
         then Err eOther
         else (match parse_state_init_key boc lib_ok ext_ok known si with
               | Ok k0 -> Ok (k0, FromStateInit)
               | Err e -> Err e
               | Panic p -> Panic p)))

(** val check_proof_src :
    (bytes0 -> bytes0) -> (bytes0 -> bytes0 -> bytes0 -> bool) -> (bytes0 ->
    bytes0 option) -> (bytes0 -> cell1 list res) -> (cell1 -> bool) -> (cell1
    -> bool) -> known_table -> ((z * bytes0) -> exec_result) -> (bytes0 ->
    bool res) -> (bytes0 -> bool res) -> z -> z -> proof ->
    (bytes0 * key_source) res **)

let check_proof_src h verify b64 boc lib_ok ext_ok known exec0 cp cd lifetime now tp =
  bind (cp tp.p_payload) (fun verified ->
    if negb verified
    then Err eOther
    else bind (convert b64 tp) (fun pm ->
           if expired now pm.m_ts lifetime
           then Err eOther
           else bind (cd pm.m_domain) (fun ok ->
                  if negb ok
                  then Err eOther
                  else bind (parse_account_id tp.p_address) (fun acc ->
                         bind
                           (wallet_key boc lib_ok ext_ok known exec0 acc
                             tp.p_state_init) (fun ks ->
                           bind
                             (ed_verify verify (fst ks) (create_message h pm)
                               pm.m_sig) (fun v ->
                             if v then Ok ks else Err eOther))))))

(** val check_proof :
    (bytes0 -> bytes0) -> (bytes0 -> bytes0 -> bytes0 -> bool) -> (bytes0 ->
    bytes0 option) -> (bytes0 -> cell1 list res) -> (cell1 -> bool) -> (cell1
    -> bool) -> known_table -> ((z * bytes0) -> exec_result) -> (bytes0 ->
    bool res) -> (bytes0 -> bool res) -> z -> z -> proof -> bytes0 res **)

let check_proof h verify b64 boc lib_ok ext_ok known exec0 cp cd lifetime now tp =
  res_map fst
    (check_proof_src h verify b64 boc lib_ok ext_ok known exec0 cp cd
      lifetime now tp)

(** val dec_digits : nat -> z -> bytes0 -> bytes0 **)

let rec dec_digits fuel n0 acc =
  match fuel with
  | O -> acc
  | S f ->
    let acc' =
      (Z.to_N
        (Z.add (Zpos (XO (XO (XO (XO (XI XH))))))
          (Z.modulo n0 (Zpos (XO (XI (XO XH))))))) :: acc
    in
    if Z.eqb (Z.div n0 (Zpos (XO (XI (XO XH))))) Z0
    then acc'
    else dec_digits f (Z.div n0 (Zpos (XO (XI (XO XH))))) acc'

(** val print_int : z -> bytes0 **)

let print_int z0 =
  if Z.ltb z0 Z0
  then (Npos (XI (XO (XI (XI (XO
         XH)))))) :: (dec_digits (S (S (S (S (S (S (S (S (S (S (S (S (S (S (S
                       (S (S (S (S (S O)))))))))))))))))))) (Z.opp z0) [])
  else dec_digits (S (S (S (S (S (S (S (S (S (S (S (S (S (S (S (S (S (S (S (S
         O)))))))))))))))))))) z0 []

(** val to_raw : z -> bytes0 -> bytes0 **)

let to_raw wc addr =
  app (print_int wc)
    (app ((Npos (XO (XI (XO (XI (XI XH)))))) :: []) (hex_encode addr))

(** val version_layout : n -> layout option **)

let version_layout v =
  if N.leb v (Npos (XO (XO XH)))
  then Some { l_off = (S (S (S (S (S (S (S (S (S (S (S (S (S (S (S (S (S (S
         (S (S (S (S (S (S (S (S (S (S (S (S (S (S
         O)))))))))))))))))))))))))))))))); l_dict = false }
  else if (||) (N.eqb v (Npos (XI (XO XH)))) (N.eqb v (Npos (XO (XI XH))))
       then Some { l_off = (S (S (S (S (S (S (S (S (S (S (S (S (S (S (S (S (S
              (S (S (S (S (S (S (S (S (S (S (S (S (S (S (S (S (S (S (S (S (S
              (S (S (S (S (S (S (S (S (S (S (S (S (S (S (S (S (S (S (S (S (S
              (S (S (S (S (S
              O))))))))))))))))))))))))))))))))))))))))))))))))))))))))))))))));
              l_dict = false }
       else if (||) (N.eqb v (Npos (XO (XO (XO XH)))))
                 (N.eqb v (Npos (XI (XO (XO XH)))))
            then Some { l_off = (S (S (S (S (S (S (S (S (S (S (S (S (S (S (S
                   (S (S (S (S (S (S (S (S (S (S (S (S (S (S (S (S (S (S (S
                   (S (S (S (S (S (S (S (S (S (S (S (S (S (S (S (S (S (S (S
                   (S (S (S (S (S (S (S (S (S (S (S
                   O))))))))))))))))))))))))))))))))))))))))))))))))))))))))))))))));
                   l_dict = false }
            else if N.eqb v (Npos (XO (XI (XO XH))))
                 then Some { l_off = (S (S (S (S (S (S (S (S (S (S (S (S (S
                        (S (S (S (S (S (S (S (S (S (S (S (S (S (S (S (S (S (S
                        (S (S (S (S (S (S (S (S (S (S (S (S (S (S (S (S (S (S
                        (S (S (S (S (S (S (S (S (S (S (S (S (S (S (S (S (S (S
                        (S (S (S (S (S (S (S (S (S (S (S (S (S (S (S (S (S (S
                        (S (S (S (S (S (S (S (S (S (S (S (S (S (S (S (S (S (S
                        (S (S (S (S (S (S (S (S (S (S
                        O)))))))))))))))))))))))))))))))))))))))))))))))))))))))))))))))))))))))))))))))))))))))))))))))))))))))))))))))));
                        l_dict = true }
                 else if N.eqb v (Npos (XI (XI (XO XH))))
                      then Some { l_off = (S (S (S (S (S (S (S (S (S (S (S (S
                             (S (S (S (S (S (S (S (S (S (S (S (S (S (S (S (S
                             (S (S (S (S (S (S (S (S (S (S (S (S (S (S (S (S
                             (S (S (S (S (S (S (S (S (S (S (S (S (S (S (S (S
                             (S (S (S (S (S
                             O)))))))))))))))))))))))))))))))))))))))))))))))))))))))))))))))));
                             l_dict = true }
                      else None

(** val known_of : (n * bytes0) list -> known_table **)

let known_of hashes =
  map (fun vh -> ((snd vh), (version_layout (fst vh)))) hashes

(** val gen_known_hashes : (n * n list) list **)

let gen_known_hashes =
  (N0, ((Npos (XO (XO (XO (XO (XO (XI (XO XH)))))))) :: ((Npos (XI (XI (XI
    (XI (XO (XO (XI XH)))))))) :: ((Npos (XO (XI (XO (XO (XO (XO (XI
    XH)))))))) :: ((Npos (XO (XO (XI (XO (XO (XO (XI XH)))))))) :: ((Npos (XO
    (XI (XO (XI (XO (XO (XO XH)))))))) :: ((Npos (XO (XI (XI (XI (XO (XI (XI
    XH)))))))) :: ((Npos (XO (XI (XI (XO XH))))) :: ((Npos (XO (XI (XO (XO
    (XO (XI (XO XH)))))))) :: ((Npos (XI (XO (XO (XO (XI (XI
    XH))))))) :: ((Npos (XO (XI (XO (XO (XI (XI (XI XH)))))))) :: ((Npos (XI
    (XI (XI (XI (XO (XO (XI XH)))))))) :: ((Npos (XO (XO (XO (XO (XO (XO (XI
    XH)))))))) :: ((Npos (XI (XI (XI (XO (XI (XI (XO XH)))))))) :: ((Npos (XO
    (XO (XO (XI (XI XH)))))) :: ((Npos (XI (XO (XI (XI (XO XH)))))) :: ((Npos
    (XI (XO (XO (XO (XO (XO (XO XH)))))))) :: ((Npos (XI (XO (XI (XO (XI (XI
    XH))))))) :: ((Npos (XO (XO (XI (XI (XO (XI XH))))))) :: ((Npos (XO (XO
    (XI (XI (XO (XI (XI XH)))))))) :: ((Npos (XI (XO (XO (XO (XI (XI (XO
    XH)))))))) :: ((Npos XH) :: ((Npos (XI (XO (XI (XI (XI (XI
    XH))))))) :: ((Npos (XI (XI XH))) :: ((Npos (XI (XI (XI (XI (XI (XI
    XH))))))) :: ((Npos (XO (XI (XO (XI (XO (XI (XO XH)))))))) :: ((Npos (XI
    (XI (XO (XI (XO (XI (XO XH)))))))) :: ((Npos (XI (XI (XO (XI (XI
    XH)))))) :: ((Npos (XO (XI (XI (XO (XI (XI (XO XH)))))))) :: ((Npos (XO
    XH)) :: ((Npos (XO (XI (XI (XO (XI (XI (XI XH)))))))) :: ((Npos (XO (XI
    (XI (XO (XO (XO (XO XH)))))))) :: ((Npos (XO (XO (XI (XI (XO (XO (XO
    XH)))))))) :: []))))))))))))))))))))))))))))))))) :: (((Npos XH), ((Npos
    (XO (XO (XI (XO (XI (XO (XI XH)))))))) :: ((Npos (XO (XO (XO (XO (XI (XO
    (XO XH)))))))) :: ((Npos (XI (XI (XI (XI (XO XH)))))) :: ((Npos (XO (XO
    (XI (XI (XO (XO (XI XH)))))))) :: ((Npos (XI (XI (XI (XI (XI (XO (XO
    XH)))))))) :: ((Npos (XI (XO (XI (XI (XO (XI (XO XH)))))))) :: ((Npos (XO
    (XO (XI (XO (XI (XI XH))))))) :: ((Npos (XI (XO (XO (XI (XO (XI
    XH))))))) :: ((Npos (XI (XI (XI (XI (XO (XO (XO XH)))))))) :: ((Npos (XO
    (XO (XO (XI (XO (XI (XO XH)))))))) :: ((Npos (XI (XI (XO (XO (XO (XI (XI
    XH)))))))) :: ((Npos (XI (XI (XO (XO (XI (XO XH))))))) :: ((Npos (XO (XI
    (XO (XO (XO XH)))))) :: ((Npos (XO (XI (XO XH)))) :: ((Npos (XO (XO (XO
    (XI (XO (XI XH))))))) :: ((Npos (XO (XI (XO (XI (XI (XO (XI
    XH)))))))) :: ((Npos (XI (XO (XI XH)))) :: ((Npos (XI (XI (XI (XI (XO (XO
    (XI XH)))))))) :: ((Npos (XO (XI (XO (XO (XI (XI XH))))))) :: ((Npos (XI
    (XI (XO (XO (XO (XI (XI XH)))))))) :: ((Npos (XI (XI (XO (XI (XO
    XH)))))) :: ((Npos (XI (XI (XO (XI (XO (XO (XI XH)))))))) :: ((Npos (XO
    (XI (XI (XI (XO XH)))))) :: ((Npos (XI (XO (XO (XI (XI (XI (XO
    XH)))))))) :: ((Npos (XO (XI (XI (XI (XO (XI (XI XH)))))))) :: ((Npos (XO
    (XO XH))) :: ((Npos (XI (XO (XO (XO (XO XH)))))) :: ((Npos (XO (XO (XI
    (XI (XI (XI XH))))))) :: ((Npos (XI (XI (XI (XO XH))))) :: ((Npos (XI (XI
    (XO (XO (XI (XO (XI XH)))))))) :: ((Npos (XO (XI XH))) :: ((Npos (XO (XO
    (XI (XI (XO XH)))))) :: []))))))))))))))))))))))))))))))))) :: (((Npos
    (XO XH)), ((Npos (XO (XO (XO (XI (XI (XO XH))))))) :: ((Npos (XO (XO (XI
    (XI (XI (XI XH))))))) :: ((Npos (XI (XI (XI (XO (XO (XO (XI
    XH)))))))) :: ((Npos (XI (XO (XO (XI (XO (XO (XO XH)))))))) :: ((Npos (XI
    (XI (XI (XI (XO (XI (XI XH)))))))) :: ((Npos (XI (XO (XO (XO (XI (XI (XI
    XH)))))))) :: ((Npos (XO (XO (XO (XI (XO (XO (XI XH)))))))) :: ((Npos (XI
    (XI (XI (XI (XO (XO XH))))))) :: ((Npos (XO (XI (XI (XO (XO (XO
    XH))))))) :: ((Npos (XO (XO (XI (XI (XO (XI (XI XH)))))))) :: ((Npos (XI
    (XI (XI (XO (XI XH)))))) :: ((Npos (XI (XI (XI (XO (XI (XO (XO
    XH)))))))) :: ((Npos (XO (XO (XI (XO (XO (XI (XI XH)))))))) :: ((Npos (XI
    (XI (XI (XI (XI (XO XH))))))) :: ((Npos (XO (XO (XO (XI (XO (XO (XI
    XH)))))))) :: ((Npos (XI (XO (XO XH)))) :: ((Npos (XI (XO (XO (XO (XO (XI
    (XO XH)))))))) :: ((Npos (XI (XI (XI (XI (XO (XO XH))))))) :: ((Npos (XI
    (XO (XI (XO (XI (XI (XI XH)))))))) :: ((Npos (XO (XI (XI (XI (XO (XI (XO
    XH)))))))) :: ((Npos (XO (XO (XI (XO (XO XH)))))) :: ((Npos (XI (XO (XO
    (XO (XI (XI (XI XH)))))))) :: ((Npos (XO (XO (XO (XO (XO (XI (XI
    XH)))))))) :: ((Npos (XI (XI (XI (XO (XO (XO (XI XH)))))))) :: ((Npos (XO
    (XI (XI (XO (XO (XI (XO XH)))))))) :: ((Npos (XI (XO (XO (XI (XO (XI (XO
    XH)))))))) :: ((Npos (XO (XO (XI (XI (XI (XO (XO XH)))))))) :: ((Npos (XI
    (XO (XO (XI (XO (XO (XI XH)))))))) :: ((Npos (XO (XO (XI (XI (XI (XO (XI
    XH)))))))) :: ((Npos (XO (XO (XO (XO (XI (XO (XO XH)))))))) :: ((Npos (XI
    (XO (XO (XO (XO (XI XH))))))) :: ((Npos (XI (XI (XI (XI (XI (XI (XI
    XH)))))))) :: []))))))))))))))))))))))))))))))))) :: (((Npos (XI XH)),
    ((Npos (XO (XO (XI (XI (XI (XO XH))))))) :: ((Npos (XO (XI (XO (XI (XI
    (XO (XO XH)))))))) :: ((Npos (XO (XI (XI (XI (XI (XO XH))))))) :: ((Npos
    (XO (XO (XO (XI (XO (XI XH))))))) :: ((Npos (XI (XO (XO (XO (XO (XO (XI
    XH)))))))) :: ((Npos (XO (XO (XO XH)))) :: ((Npos (XI (XO (XO (XO (XO (XI
    (XI XH)))))))) :: ((Npos (XI (XI (XI (XO (XO (XO (XO XH)))))))) :: ((Npos
    (XI (XO (XO (XO (XO XH)))))) :: ((Npos (XO (XO (XO (XO (XO (XI (XO
    XH)))))))) :: ((Npos (XO (XO (XI (XI (XI (XI XH))))))) :: ((Npos (XO (XI
    (XO (XO (XO (XO XH))))))) :: ((Npos (XI (XO (XO (XI (XI (XI (XI
    XH)))))))) :: ((Npos (XI (XO (XI (XO (XI (XO (XO XH)))))))) :: ((Npos (XI
    (XI (XO (XI (XO (XI XH))))))) :: ((Npos (XI (XI (XO (XI (XI (XI (XI
    XH)))))))) :: ((Npos (XI (XO (XO (XI (XI XH)))))) :: ((Npos (XI (XO (XI
    (XI (XO (XI (XO XH)))))))) :: ((Npos (XI (XI (XI (XO (XI (XI
    XH))))))) :: ((Npos (XO (XO (XI (XI (XO (XI (XI XH)))))))) :: ((Npos (XI
    (XO (XI (XI (XO (XI XH))))))) :: ((Npos (XO (XI (XO (XO (XO (XI
    XH))))))) :: ((Npos (XI (XI (XO (XI (XO (XO XH))))))) :: ((Npos (XO (XO
    (XO (XO (XO (XI XH))))))) :: ((Npos (XI (XO (XI (XO (XO (XO (XI
    XH)))))))) :: ((Npos (XO (XI (XI (XO (XI (XI XH))))))) :: ((Npos (XO (XO
    (XI (XI (XO (XI (XI XH)))))))) :: ((Npos (XO (XO (XO (XI (XO (XO (XO
    XH)))))))) :: ((Npos (XO (XI (XI (XI (XO (XI (XI XH)))))))) :: ((Npos (XO
    (XI (XI (XO (XO (XI (XI XH)))))))) :: ((Npos (XI (XI (XO (XO (XI (XO
    XH))))))) :: ((Npos (XI (XO (XO (XI (XO
    XH)))))) :: []))))))))))))))))))))))))))))))))) :: (((Npos (XO (XO XH))),
    ((Npos (XO (XI (XI (XI (XI (XI (XI XH)))))))) :: ((Npos (XI (XO (XI (XO
    (XI (XO (XO XH)))))))) :: ((Npos (XO (XO (XO (XO (XI XH)))))) :: ((Npos
    (XI (XI (XO (XO (XI (XO (XI XH)))))))) :: ((Npos (XO (XO (XI (XO (XO
    XH)))))) :: ((Npos (XO (XO (XO (XI (XI XH)))))) :: ((Npos (XI (XI (XO (XO
    (XI (XO XH))))))) :: ((Npos (XO (XO (XO XH)))) :: ((Npos (XO (XI (XI (XI
    (XI XH)))))) :: ((Npos (XO (XI (XO (XO (XI (XI (XI XH)))))))) :: ((Npos
    (XI (XI (XI (XI (XO (XI (XI XH)))))))) :: ((Npos (XI (XI (XO
    XH)))) :: ((Npos (XO (XO (XI (XI (XO (XO XH))))))) :: ((Npos (XI (XO (XO
    (XI (XO XH)))))) :: ((Npos (XO (XO (XO XH)))) :: ((Npos (XO (XO (XO (XO
    (XO (XO (XI XH)))))))) :: ((Npos (XI (XI (XO (XI (XO (XI (XO
    XH)))))))) :: ((Npos (XO (XI (XI (XO (XI (XI (XI XH)))))))) :: ((Npos (XO
    (XI (XO (XI (XI (XI (XI XH)))))))) :: ((Npos (XO (XO (XI (XI
    XH))))) :: ((Npos (XI (XO (XO (XO (XI XH)))))) :: ((Npos (XO (XI (XO (XI
    (XO (XI (XI XH)))))))) :: ((Npos (XO (XO (XI (XO (XO XH)))))) :: ((Npos
    (XO (XI (XO (XI (XI XH)))))) :: ((Npos (XO (XO (XI (XI (XO (XI (XO
    XH)))))))) :: ((Npos (XO (XI (XO (XI (XO (XI (XO XH)))))))) :: ((Npos (XI
    (XI (XO (XI (XI (XO XH))))))) :: ((Npos (XO (XO (XO (XI (XI (XI (XI
    XH)))))))) :: ((Npos (XI (XI (XI (XO (XO (XO (XI XH)))))))) :: ((Npos (XI
    (XI (XI (XO (XI (XO (XI XH)))))))) :: ((Npos (XI (XI (XO (XO (XI (XO
    XH))))))) :: ((Npos (XI (XO (XO (XO (XI (XI (XI
    XH)))))))) :: []))))))))))))))))))))))))))))))))) :: (((Npos (XI (XO
    XH))), ((Npos (XO (XI (XI (XO (XI (XI (XO XH)))))))) :: ((Npos (XO (XO
    (XO (XO XH))))) :: ((Npos (XI (XO (XO (XO (XO (XO XH))))))) :: ((Npos (XI
    (XO (XI (XO (XO (XI (XO XH)))))))) :: ((Npos (XO (XI (XO (XI (XO (XO (XO
    XH)))))))) :: ((Npos (XI (XO (XO (XI (XI (XI XH))))))) :: ((Npos (XO (XO
    (XO (XO (XO (XO (XO XH)))))))) :: ((Npos (XI (XO (XO (XI (XI (XI (XO
    XH)))))))) :: ((Npos (XO (XI (XI (XO (XO (XO XH))))))) :: ((Npos (XO (XO
    (XO (XI (XO (XI (XI XH)))))))) :: ((Npos (XI (XI (XO (XI (XI (XI (XI
    XH)))))))) :: ((Npos (XO (XI (XI (XI (XI (XO (XO XH)))))))) :: ((Npos (XI
    (XO (XO (XI XH))))) :: ((Npos (XO (XI (XI (XI (XO (XO (XO
    XH)))))))) :: ((Npos (XO (XO (XI (XI (XI XH)))))) :: ((Npos (XO (XO (XO
    (XO (XI (XO (XO XH)))))))) :: ((Npos (XI (XO (XI (XI (XO (XO
    XH))))))) :: ((Npos (XO (XO (XI (XO (XO XH)))))) :: ((Npos (XI (XO (XO
    (XI (XI (XI XH))))))) :: ((Npos (XI (XI (XI (XI (XI (XO (XO
    XH)))))))) :: ((Npos (XO (XI (XO (XI (XI (XI (XI XH)))))))) :: ((Npos (XO
    (XI (XI (XO (XI XH)))))) :: ((Npos (XI (XI (XI (XO (XI (XO
    XH))))))) :: ((Npos (XO (XI (XI (XI (XO (XO XH))))))) :: ((Npos (XO (XO
    (XI (XO (XO (XI (XO XH)))))))) :: ((Npos (XI (XO (XI (XO (XO
    XH)))))) :: ((Npos (XO (XO (XI (XI XH))))) :: ((Npos (XI (XO (XO (XO (XO
    (XO XH))))))) :: ((Npos (XI (XO (XI (XO (XO (XI (XO XH)))))))) :: ((Npos
    (XO (XI (XI (XO (XO (XI XH))))))) :: ((Npos (XI (XO (XI (XO (XI (XI (XI
    XH)))))))) :: ((Npos (XI (XO (XO (XO (XO (XO (XO
    XH)))))))) :: []))))))))))))))))))))))))))))))))) :: (((Npos (XO (XI
    XH))), ((Npos (XO (XO (XI (XO (XO (XO (XO XH)))))))) :: ((Npos (XO (XI
    (XO (XI (XI (XO (XI XH)))))))) :: ((Npos (XO (XI (XO (XI (XI (XI (XI
    XH)))))))) :: ((Npos (XO (XO (XI (XO (XO (XO XH))))))) :: ((Npos (XI (XI
    (XI (XI (XI (XO (XO XH)))))))) :: ((Npos (XO (XO (XO (XI (XI (XO (XO
    XH)))))))) :: ((Npos (XO (XI (XI (XO (XO (XI (XO XH)))))))) :: ((Npos (XO
    (XO (XO (XI (XI (XO (XO XH)))))))) :: ((Npos (XI (XI (XI (XO (XI (XI
    XH))))))) :: ((Npos (XI (XO (XO (XI (XO (XO (XO XH)))))))) :: ((Npos (XO
    (XI (XO (XI (XI (XI (XO XH)))))))) :: ((Npos (XI (XI (XO (XO (XO
    XH)))))) :: ((Npos (XI (XI (XO (XO (XO XH)))))) :: ((Npos (XO (XO (XO (XI
    (XI (XO XH))))))) :: ((Npos (XI (XI XH))) :: ((Npos (XI (XI (XO (XI (XO
    XH)))))) :: ((Npos (XO (XO (XO (XO (XO (XO (XI XH)))))))) :: ((Npos (XI
    (XI (XI (XO (XI (XI (XI XH)))))))) :: ((Npos (XI (XO (XI (XI (XO (XI
    XH))))))) :: ((Npos (XO (XO (XI (XO (XO (XO (XI XH)))))))) :: ((Npos (XO
    (XI (XO (XO (XI (XO XH))))))) :: ((Npos (XO (XO (XO (XO (XO (XO
    XH))))))) :: ((Npos (XO XH)) :: ((Npos (XI (XO (XI (XO (XO (XI (XO
    XH)))))))) :: ((Npos (XO (XO (XO (XO (XI (XO (XI XH)))))))) :: ((Npos (XI
    (XO (XO (XO (XI (XO (XO XH)))))))) :: ((Npos (XI (XI (XO (XI (XO (XO (XO
    XH)))))))) :: ((Npos (XO (XI (XO (XI (XI (XO (XO XH)))))))) :: ((Npos (XI
    (XO (XI (XO (XI (XI XH))))))) :: ((Npos (XO (XI (XO (XO (XI (XO (XI
    XH)))))))) :: ((Npos (XI (XO (XI (XO (XI (XO (XI XH)))))))) :: ((Npos (XI
    (XO (XO (XI (XI (XO (XO
    XH)))))))) :: []))))))))))))))))))))))))))))))))) :: (((Npos (XI (XI
    XH))), ((Npos (XO (XO (XO (XI (XO (XO (XO XH)))))))) :: ((Npos (XI (XI
    (XO (XI (XI (XI (XI XH)))))))) :: ((Npos (XO (XO (XO (XI (XI (XI (XI
    XH)))))))) :: ((Npos (XO (XO (XO (XI XH))))) :: ((Npos (XO (XO (XI (XO
    (XO (XI (XI XH)))))))) :: ((Npos (XI (XO (XI (XI (XI (XI
    XH))))))) :: ((Npos (XI (XI (XI (XI (XI (XO XH))))))) :: ((Npos (XO (XI
    (XO (XO (XI XH)))))) :: ((Npos (XI (XI (XI (XI (XO (XO (XO
    XH)))))))) :: ((Npos (XI (XO (XI (XI (XI (XI XH))))))) :: ((Npos (XI (XI
    (XO (XO (XO (XO (XI XH)))))))) :: ((Npos (XI (XI (XO (XI (XO (XO
    XH))))))) :: ((Npos (XI (XO (XI (XI (XO (XI (XO XH)))))))) :: ((Npos (XI
    (XI (XO (XO (XO (XO XH))))))) :: ((Npos (XI (XI (XO (XO (XO
    XH)))))) :: ((Npos (XI (XI (XO (XI (XI (XI (XO XH)))))))) :: ((Npos (XO
    (XO (XO (XI (XO XH)))))) :: ((Npos (XI (XO (XO (XO (XO (XI (XO
    XH)))))))) :: ((Npos (XO (XI (XI (XI (XO XH)))))) :: ((Npos (XO (XI (XI
    (XO (XO (XO (XI XH)))))))) :: ((Npos (XI (XI (XI (XO (XO (XO (XI
    XH)))))))) :: ((Npos (XO (XO (XI (XI (XI (XO XH))))))) :: ((Npos (XI (XO
    (XO (XI (XO (XI (XI XH)))))))) :: ((Npos (XO (XO (XI (XI (XO (XI (XI
    XH)))))))) :: ((Npos (XI (XO (XI (XO (XO XH)))))) :: ((Npos (XI (XI (XI
    (XO (XI (XO (XI XH)))))))) :: ((Npos (XI (XI (XI (XO (XI (XI
    XH))))))) :: ((Npos (XO (XI (XI (XO (XO (XO XH))))))) :: ((Npos (XI (XO
    (XI (XO (XO (XO (XI XH)))))))) :: ((Npos (XO (XI (XI (XI (XO (XI
    XH))))))) :: ((Npos (XI (XO (XI (XI XH))))) :: ((Npos (XI (XO (XI (XI (XO
    (XI (XI XH)))))))) :: []))))))))))))))))))))))))))))))))) :: (((Npos (XO
    (XO (XO XH)))), ((Npos (XO (XO (XI (XO (XO (XI XH))))))) :: ((Npos (XI
    (XO (XI (XI (XI (XO (XI XH)))))))) :: ((Npos (XO (XO (XI (XO (XI (XO
    XH))))))) :: ((Npos (XO (XO (XO (XO (XO (XO (XO XH)))))))) :: ((Npos (XI
    (XO (XI (XO (XI (XO XH))))))) :: ((Npos (XO (XI (XO (XO (XO
    XH)))))) :: ((Npos (XI (XO (XI (XO (XO (XO (XI XH)))))))) :: ((Npos (XO
    (XI (XI (XI (XI (XI (XO XH)))))))) :: ((Npos (XO (XI (XO (XI (XO (XO (XO
    XH)))))))) :: ((Npos (XI (XO (XI (XI (XI (XO (XO XH)))))))) :: ((Npos (XI
    (XO (XI (XO (XI (XI (XO XH)))))))) :: ((Npos (XO (XO (XI (XI (XI (XO (XO
    XH)))))))) :: ((Npos (XO (XI (XO (XI (XO (XI (XI XH)))))))) :: ((Npos
    XH) :: ((Npos (XI (XO XH))) :: ((Npos (XO (XO (XI (XI (XO (XO (XI
    XH)))))))) :: ((Npos (XO (XO (XO (XO (XI (XI (XI XH)))))))) :: ((Npos (XO
    (XO (XO (XO (XI (XO (XI XH)))))))) :: ((Npos (XI (XI (XI (XO (XO (XO (XO
    XH)))))))) :: ((Npos (XO (XI (XI (XO (XO (XO (XO XH)))))))) :: ((Npos (XO
    (XI (XO (XI (XO (XO (XI XH)))))))) :: ((Npos (XI (XO (XO (XI (XI (XI
    XH))))))) :: ((Npos (XO (XI (XI (XI (XI (XI (XO XH)))))))) :: ((Npos (XO
    (XO (XO (XI (XI (XI (XO XH)))))))) :: ((Npos (XI (XI (XO (XI (XO (XO (XI
    XH)))))))) :: ((Npos (XI (XO (XO (XI (XI (XI XH))))))) :: ((Npos (XO (XO
    (XO (XI (XO (XI (XI XH)))))))) :: ((Npos (XO (XO (XO (XO (XO (XO (XO
    XH)))))))) :: ((Npos (XO (XO (XO (XI (XO (XI (XO XH)))))))) :: ((Npos (XI
    (XI (XI (XO (XI (XO (XI XH)))))))) :: ((Npos (XO (XI (XO (XO (XI
    XH)))))) :: ((Npos (XI (XO (XI (XI (XO
    XH)))))) :: []))))))))))))))))))))))))))))))))) :: (((Npos (XI (XO (XO
    XH)))), ((Npos (XO (XI (XI (XI (XI (XI (XI XH)))))))) :: ((Npos (XI (XO
    (XI (XO (XI (XI (XO XH)))))))) :: ((Npos (XI (XI (XI (XI (XI (XI (XI
    XH)))))))) :: ((Npos (XO (XO (XO (XI (XO (XI XH))))))) :: ((Npos (XO (XO
    (XO (XO (XO XH)))))) :: ((Npos (XO (XI (XO (XO (XO (XI (XI
    XH)))))))) :: ((Npos (XI (XI (XI (XI (XI (XI (XI XH)))))))) :: ((Npos (XI
    (XO (XI XH)))) :: ((Npos (XO (XO (XI (XO (XI (XO (XO XH)))))))) :: ((Npos
    (XI (XI (XO (XO (XO (XO (XO XH)))))))) :: ((Npos (XI (XI (XI (XO (XO (XI
    (XI XH)))))))) :: ((Npos (XO (XO (XO (XO (XO (XI (XI XH)))))))) :: ((Npos
    (XO (XI (XI (XO (XI (XO (XI XH)))))))) :: ((Npos (XO (XO (XI (XI (XO
    XH)))))) :: ((Npos (XI (XO (XO (XO (XO (XO (XO XH)))))))) :: ((Npos (XI
    (XO (XI (XI (XI (XI XH))))))) :: ((Npos (XO (XO (XI (XO (XO (XO (XO
    XH)))))))) :: ((Npos (XI (XI (XI (XO (XO (XI XH))))))) :: ((Npos (XI (XO
    (XO (XI (XO (XO (XO XH)))))))) :: ((Npos (XI (XI (XO (XI (XI (XI (XI
    XH)))))))) :: ((Npos (XO (XI (XO (XI (XO (XO XH))))))) :: ((Npos (XI (XO
    (XI (XO (XO (XI (XI XH)))))))) :: ((Npos (XO (XO (XO (XO (XO (XO (XO
    XH)))))))) :: ((Npos (XO (XO (XO (XI (XO (XO (XI XH)))))))) :: ((Npos (XO
    (XO (XO (XI (XI (XI XH))))))) :: ((Npos (XO (XI (XI (XO (XO (XO (XO
    XH)))))))) :: ((Npos (XI (XO (XI (XI (XO (XI XH))))))) :: ((Npos (XI (XO
    (XI (XO (XI (XO (XO XH)))))))) :: ((Npos (XI (XO (XI (XI (XI (XO (XO
    XH)))))))) :: ((Npos (XI (XI (XO (XI (XO (XI (XO XH)))))))) :: ((Npos (XI
    (XO (XI (XO (XI (XO (XI XH)))))))) :: ((Npos (XO (XO (XO (XO (XO (XO (XI
    XH)))))))) :: []))))))))))))))))))))))))))))))))) :: (((Npos (XO (XI (XO
    XH)))), ((Npos (XI (XI (XO (XO (XI (XI (XI XH)))))))) :: ((Npos (XI (XI
    (XI (XO (XI (XO (XI XH)))))))) :: ((Npos (XO (XI (XO (XI (XO (XO (XI
    XH)))))))) :: ((Npos (XI (XI (XO (XO (XI (XO XH))))))) :: ((Npos (XI (XO
    (XO (XI (XO (XO XH))))))) :: ((Npos (XI (XO (XI (XI (XI
    XH)))))) :: ((Npos (XO (XI (XI (XI (XO (XI (XI XH)))))))) :: ((Npos (XO
    (XI (XO (XI (XI (XO (XI XH)))))))) :: ((Npos (XO (XI (XO (XO (XO (XO (XI
    XH)))))))) :: ((Npos (XI (XI (XO (XI (XO (XO (XO XH)))))))) :: ((Npos (XO
    (XO (XO (XI (XI XH)))))) :: ((Npos (XI (XO (XO (XI XH))))) :: ((Npos (XO
    (XI (XI (XO (XO (XO (XO XH)))))))) :: ((Npos (XO (XO (XO (XI (XO (XI (XO
    XH)))))))) :: ((Npos (XI (XO (XO (XI (XO (XO XH))))))) :: ((Npos (XO (XO
    (XO (XO (XO (XO XH))))))) :: ((Npos (XO (XO (XI (XI (XI
    XH)))))) :: ((Npos (XO (XI (XO (XI (XI (XI (XO XH)))))))) :: ((Npos (XI
    (XI (XO (XO (XO (XO (XI XH)))))))) :: ((Npos (XO (XI (XO (XO (XI (XO (XI
    XH)))))))) :: ((Npos (XI (XO (XI (XO (XO (XO (XI XH)))))))) :: ((Npos (XO
    (XO (XI (XO (XO (XO (XO XH)))))))) :: ((Npos (XI (XI (XI (XO (XI (XI
    XH))))))) :: ((Npos (XO (XI (XO (XI (XI (XO (XO XH)))))))) :: ((Npos (XO
    (XO (XO (XO (XI (XI (XI XH)))))))) :: ((Npos (XI (XO (XO (XO (XO (XO (XO
    XH)))))))) :: ((Npos (XO (XI XH))) :: ((Npos (XO (XI (XO (XI (XI (XO
    XH))))))) :: ((Npos (XO (XO (XO (XO (XI (XI (XI XH)))))))) :: ((Npos (XO
    (XO (XI (XI (XO (XI (XO XH)))))))) :: ((Npos (XI (XI (XO (XI (XO (XO
    XH))))))) :: ((Npos (XI (XI (XO (XO (XI (XO (XO
    XH)))))))) :: []))))))))))))))))))))))))))))))))) :: (((Npos (XI (XI (XO
    XH)))), ((Npos (XO (XO (XO (XO (XO XH)))))) :: ((Npos (XI (XI (XO (XO (XO
    (XO (XO XH)))))))) :: ((Npos (XI (XI (XO (XI (XO (XO XH))))))) :: ((Npos
    (XI (XI (XO (XI (XI (XI XH))))))) :: ((Npos (XO (XI (XO (XO (XI (XI
    XH))))))) :: ((Npos (XI (XO (XO (XO (XI (XI (XO XH)))))))) :: ((Npos (XO
    (XI (XO (XO XH))))) :: ((Npos (XO (XO (XI (XO XH))))) :: ((Npos (XO (XI
    (XI (XI (XI (XI XH))))))) :: ((Npos (XI (XI (XO (XI XH))))) :: ((Npos (XI
    (XI (XI (XI (XO XH)))))) :: ((Npos (XO (XO (XI (XO (XI (XI (XO
    XH)))))))) :: ((Npos (XI (XI (XI (XO (XI (XO XH))))))) :: ((Npos (XO (XO
    (XO (XI (XI (XI (XO XH)))))))) :: ((Npos (XO (XI (XI (XI (XO (XO
    XH))))))) :: ((Npos (XO (XO (XI (XO (XI (XI XH))))))) :: ((Npos (XI (XO
    (XO (XO (XI (XO (XI XH)))))))) :: ((Npos (XI (XI (XO (XO (XO (XI (XO
    XH)))))))) :: ((Npos (XI (XI (XI XH)))) :: ((Npos (XO (XO XH))) :: ((Npos
    (XI (XI (XI (XO (XI (XI (XI XH)))))))) :: ((Npos (XI (XI (XI (XO (XI
    XH)))))) :: ((Npos (XO (XO (XI (XO (XI (XO (XI XH)))))))) :: ((Npos (XO
    (XI (XI (XO (XI (XI (XI XH)))))))) :: ((Npos (XO (XI (XO (XI (XO
    XH)))))) :: ((Npos (XO (XI (XI (XO (XO (XI XH))))))) :: ((Npos (XO (XI
    (XI (XI (XO (XO (XO XH)))))))) :: ((Npos (XI (XO (XI (XO (XI (XO (XO
    XH)))))))) :: ((Npos (XO (XI (XO (XO (XI (XO XH))))))) :: ((Npos (XO (XI
    (XO (XO (XI (XO (XI XH)))))))) :: ((Npos (XI (XI (XI (XO (XI (XI (XO
    XH)))))))) :: ((Npos (XI (XI (XI (XI (XO
    XH)))))) :: []))))))))))))))))))))))))))))))))) :: [])))))))))))

(** val known_wallets : known_table **)

let known_wallets =
  known_of gen_known_hashes

(** val out_res : ('a1 -> sx) -> 'a1 res -> sx **)

let out_res f = function
| Ok a -> f a
| Err _ ->
  SA (String ((Ascii (true, false, true, false, false, true, true, false)),
    (String ((Ascii (false, true, false, false, true, true, true, false)),
    (String ((Ascii (false, true, false, false, true, true, true, false)),
    EmptyString))))))
| Panic _ ->
  SA (String ((Ascii (false, false, false, false, true, true, true, false)),
    (String ((Ascii (true, false, false, false, false, true, true, false)),
    (String ((Ascii (false, true, true, true, false, true, true, false)),
    (String ((Ascii (true, false, false, true, false, true, true, false)),
    (String ((Ascii (true, true, false, false, false, true, true, false)),
    EmptyString))))))))))

(** val opt_bytes : sx -> bytes0 option **)

let opt_bytes = function
| SBytes b -> Some b
| _ -> None

(** val table_lookup : bytes0 -> sx list -> bytes0 -> bytes0 **)

let rec table_lookup k0 t dflt =
  match t with
  | [] -> dflt
  | s :: t' ->
    (match s with
     | SL l ->
       (match l with
        | [] -> table_lookup k0 t' dflt
        | s0 :: l0 ->
          (match s0 with
           | SBytes k' ->
             (match l0 with
              | [] -> table_lookup k0 t' dflt
              | s1 :: l1 ->
                (match s1 with
                 | SBytes v ->
                   (match l1 with
                    | [] -> if beqb k0 k' then v else table_lookup k0 t' dflt
                    | _ :: _ -> table_lookup k0 t' dflt)
                 | _ -> table_lookup k0 t' dflt))
           | _ -> table_lookup k0 t' dflt))
     | _ -> table_lookup k0 t' dflt)

(** val zeros32 : bytes0 **)

let zeros32 =
  repeat N0 (S (S (S (S (S (S (S (S (S (S (S (S (S (S (S (S (S (S (S (S (S (S
    (S (S (S (S (S (S (S (S (S (S O))))))))))))))))))))))))))))))))

(** val hmac_of : sx list -> bytes0 -> bytes0 -> bytes0 **)

let hmac_of t _ m =
  table_lookup m t zeros32

(** val verify_of : sx list -> bytes0 -> bytes0 -> bytes0 -> bool **)

let rec verify_of t pk msg0 sig0 =
  match t with
  | [] -> false
  | s :: t' ->
    (match s with
     | SL l ->
       (match l with
        | [] -> verify_of t' pk msg0 sig0
        | s0 :: l0 ->
          (match s0 with
           | SBytes pk' ->
             (match l0 with
              | [] -> verify_of t' pk msg0 sig0
              | s1 :: l1 ->
                (match s1 with
                 | SBytes msg' ->
                   (match l1 with
                    | [] -> verify_of t' pk msg0 sig0
                    | s2 :: l2 ->
                      (match s2 with
                       | SB b ->
                         (match l2 with
                          | [] ->
                            if (&&) (beqb pk pk') (beqb msg0 msg')
                            then b
                            else verify_of t' pk msg0 sig0
                          | _ :: _ -> verify_of t' pk msg0 sig0)
                       | _ -> verify_of t' pk msg0 sig0))
                 | _ -> verify_of t' pk msg0 sig0))
           | _ -> verify_of t' pk msg0 sig0))
     | _ -> verify_of t' pk msg0 sig0)

(** val cell_of_sx : nat -> sx -> cell1 **)

let rec cell_of_sx fuel a =
  match fuel with
  | O -> zero_cell
  | S f ->
    (match a with
     | SL l ->
       (match l with
        | [] -> zero_cell
        | s :: l0 ->
          (match s with
           | SN ty ->
             (match l0 with
              | [] -> zero_cell
              | s0 :: l1 ->
                (match s0 with
                 | SBits b ->
                   (match l1 with
                    | [] -> zero_cell
                    | s1 :: l2 ->
                      (match s1 with
                       | SL refs ->
                         (match l2 with
                          | [] -> zero_cell
                          | h :: l3 ->
                            (match l3 with
                             | [] ->
                               Cell1 (ty, b, (map (cell_of_sx f) refs),
                                 (opt_bytes h))
                             | _ :: _ -> zero_cell))
                       | _ -> zero_cell))
                 | _ -> zero_cell))
           | _ -> zero_cell))
     | _ -> zero_cell)

(** val boc_of : sx -> bytes0 -> cell1 list res **)

let boc_of a _ =
  match a with
  | SL cells -> Ok (map (cell_of_sx (S (S (S (S (S (S (S (S O))))))))) cells)
  | _ -> Err eOther

(** val stk_of : sx -> stk **)

let stk_of = function
| SL l ->
  (match l with
   | [] -> StOther
   | s :: l0 ->
     (match s with
      | SA k0 ->
        (match l0 with
         | [] -> StOther
         | s0 :: l1 ->
           (match s0 with
            | SZ z0 ->
              (match l1 with
               | [] ->
                 if eqb1 k0 (String ((Ascii (false, false, true, false, true,
                      true, true, false)), (String ((Ascii (true, false,
                      false, true, false, true, true, false)), (String
                      ((Ascii (false, true, true, true, false, true, true,
                      false)), (String ((Ascii (true, false, false, true,
                      true, true, true, false)), EmptyString))))))))
                 then StTiny z0
                 else if eqb1 k0 (String ((Ascii (true, false, false, true,
                           false, true, true, false)), (String ((Ascii
                           (false, true, true, true, false, true, true,
                           false)), (String ((Ascii (false, false, true,
                           false, true, true, true, false)), EmptyString))))))
                      then StInt z0
                      else StOther
               | _ :: _ -> StOther)
            | _ -> StOther))
      | _ -> StOther))
| _ -> StOther

(** val exec_of : sx -> exec_result **)

let exec_of = function
| SL l ->
  (match l with
   | [] -> ExErr
   | s :: l0 ->
     (match s with
      | SN code ->
        (match l0 with
         | [] -> ExErr
         | s0 :: l1 ->
           (match s0 with
            | SL st ->
              (match l1 with
               | [] -> ExRet (code, (map stk_of st))
               | _ :: _ -> ExErr)
            | _ -> ExErr))
      | _ -> ExErr))
| _ -> ExErr

(** val bool_of : sx -> bool **)

let bool_of = function
| SB b -> b
| _ -> false

(** val run_msg : sx -> sx **)

let run_msg = function
| SL l ->
  (match l with
   | [] ->
     sx_err (String ((Ascii (true, true, false, false, false, true, true,
       false)), (String ((Ascii (true, false, false, false, true, true,
       false, false)), (String ((Ascii (true, false, false, true, true, true,
       false, false)), (String ((Ascii (false, true, true, true, false, true,
       false, false)), (String ((Ascii (true, false, true, true, false, true,
       true, false)), (String ((Ascii (true, true, false, false, true, true,
       true, false)), (String ((Ascii (true, true, true, false, false, true,
       true, false)), EmptyString))))))))))))))
   | s :: l0 ->
     (match s with
      | SZ wc ->
        (match l0 with
         | [] ->
           sx_err (String ((Ascii (true, true, false, false, false, true,
             true, false)), (String ((Ascii (true, false, false, false, true,
             true, false, false)), (String ((Ascii (true, false, false, true,
             true, true, false, false)), (String ((Ascii (false, true, true,
             true, false, true, false, false)), (String ((Ascii (true, false,
             true, true, false, true, true, false)), (String ((Ascii (true,
             true, false, false, true, true, true, false)), (String ((Ascii
             (true, true, true, false, false, true, true, false)),
             EmptyString))))))))))))))
         | s0 :: l1 ->
           (match s0 with
            | SBytes addr ->
              (match l1 with
               | [] ->
                 sx_err (String ((Ascii (true, true, false, false, false,
                   true, true, false)), (String ((Ascii (true, false, false,
                   false, true, true, false, false)), (String ((Ascii (true,
                   false, false, true, true, true, false, false)), (String
                   ((Ascii (false, true, true, true, false, true, false,
                   false)), (String ((Ascii (true, false, true, true, false,
                   true, true, false)), (String ((Ascii (true, true, false,
                   false, true, true, true, false)), (String ((Ascii (true,
                   true, true, false, false, true, true, false)),
                   EmptyString))))))))))))))
               | s1 :: l2 ->
                 (match s1 with
                  | SZ ts ->
                    (match l2 with
                     | [] ->
                       sx_err (String ((Ascii (true, true, false, false,
                         false, true, true, false)), (String ((Ascii (true,
                         false, false, false, true, true, false, false)),
                         (String ((Ascii (true, false, false, true, true,
                         true, false, false)), (String ((Ascii (false, true,
                         true, true, false, true, false, false)), (String
                         ((Ascii (true, false, true, true, false, true, true,
                         false)), (String ((Ascii (true, true, false, false,
                         true, true, true, false)), (String ((Ascii (true,
                         true, true, false, false, true, true, false)),
                         EmptyString))))))))))))))
                     | s2 :: l3 ->
                       (match s2 with
                        | SBytes dom ->
                          (match l3 with
                           | [] ->
                             sx_err (String ((Ascii (true, true, false,
                               false, false, true, true, false)), (String
                               ((Ascii (true, false, false, false, true,
                               true, false, false)), (String ((Ascii (true,
                               false, false, true, true, true, false,
                               false)), (String ((Ascii (false, true, true,
                               true, false, true, false, false)), (String
                               ((Ascii (true, false, true, true, false, true,
                               true, false)), (String ((Ascii (true, true,
                               false, false, true, true, true, false)),
                               (String ((Ascii (true, true, true, false,
                               false, true, true, false)),
                               EmptyString))))))))))))))
                           | s3 :: l4 ->
                             (match s3 with
                              | SBytes pl ->
                                (match l4 with
                                 | [] ->
                                   SBytes
                                     (create_message sha256 { m_wc = wc;
                                       m_addr = addr; m_ts = ts; m_domain =
                                       dom; m_sig = []; m_payload = pl })
                                 | _ :: _ ->
                                   sx_err (String ((Ascii (true, true, false,
                                     false, false, true, true, false)),
                                     (String ((Ascii (true, false, false,
                                     false, true, true, false, false)),
                                     (String ((Ascii (true, false, false,
                                     true, true, true, false, false)),
                                     (String ((Ascii (false, true, true,
                                     true, false, true, false, false)),
                                     (String ((Ascii (true, false, true,
                                     true, false, true, true, false)),
                                     (String ((Ascii (true, true, false,
                                     false, true, true, true, false)),
                                     (String ((Ascii (true, true, true,
                                     false, false, true, true, false)),
                                     EmptyString)))))))))))))))
                              | _ ->
                                sx_err (String ((Ascii (true, true, false,
                                  false, false, true, true, false)), (String
                                  ((Ascii (true, false, false, false, true,
                                  true, false, false)), (String ((Ascii
                                  (true, false, false, true, true, true,
                                  false, false)), (String ((Ascii (false,
                                  true, true, true, false, true, false,
                                  false)), (String ((Ascii (true, false,
                                  true, true, false, true, true, false)),
                                  (String ((Ascii (true, true, false, false,
                                  true, true, true, false)), (String ((Ascii
                                  (true, true, true, false, false, true,
                                  true, false)), EmptyString))))))))))))))))
                        | _ ->
                          sx_err (String ((Ascii (true, true, false, false,
                            false, true, true, false)), (String ((Ascii
                            (true, false, false, false, true, true, false,
                            false)), (String ((Ascii (true, false, false,
                            true, true, true, false, false)), (String ((Ascii
                            (false, true, true, true, false, true, false,
                            false)), (String ((Ascii (true, false, true,
                            true, false, true, true, false)), (String ((Ascii
                            (true, true, false, false, true, true, true,
                            false)), (String ((Ascii (true, true, true,
                            false, false, true, true, false)),
                            EmptyString))))))))))))))))
                  | _ ->
                    sx_err (String ((Ascii (true, true, false, false, false,
                      true, true, false)), (String ((Ascii (true, false,
                      false, false, true, true, false, false)), (String
                      ((Ascii (true, false, false, true, true, true, false,
                      false)), (String ((Ascii (false, true, true, true,
                      false, true, false, false)), (String ((Ascii (true,
                      false, true, true, false, true, true, false)), (String
                      ((Ascii (true, true, false, false, true, true, true,
                      false)), (String ((Ascii (true, true, true, false,
                      false, true, true, false)), EmptyString))))))))))))))))
            | _ ->
              sx_err (String ((Ascii (true, true, false, false, false, true,
                true, false)), (String ((Ascii (true, false, false, false,
                true, true, false, false)), (String ((Ascii (true, false,
                false, true, true, true, false, false)), (String ((Ascii
                (false, true, true, true, false, true, false, false)),
                (String ((Ascii (true, false, true, true, false, true, true,
                false)), (String ((Ascii (true, true, false, false, true,
                true, true, false)), (String ((Ascii (true, true, true,
                false, false, true, true, false)), EmptyString))))))))))))))))
      | _ ->
        sx_err (String ((Ascii (true, true, false, false, false, true, true,
          false)), (String ((Ascii (true, false, false, false, true, true,
          false, false)), (String ((Ascii (true, false, false, true, true,
          true, false, false)), (String ((Ascii (false, true, true, true,
          false, true, false, false)), (String ((Ascii (true, false, true,
          true, false, true, true, false)), (String ((Ascii (true, true,
          false, false, true, true, true, false)), (String ((Ascii (true,
          true, true, false, false, true, true, false)),
          EmptyString))))))))))))))))
| _ ->
  sx_err (String ((Ascii (true, true, false, false, false, true, true,
    false)), (String ((Ascii (true, false, false, false, true, true, false,
    false)), (String ((Ascii (true, false, false, true, true, true, false,
    false)), (String ((Ascii (false, true, true, true, false, true, false,
    false)), (String ((Ascii (true, false, true, true, false, true, true,
    false)), (String ((Ascii (true, true, false, false, true, true, true,
    false)), (String ((Ascii (true, true, true, false, false, true, true,
    false)), EmptyString))))))))))))))

(** val sx_acc : (z * bytes0) -> sx **)

let sx_acc x =
  SL ((SZ (fst x)) :: ((SBytes (snd x)) :: []))

(** val run_conv : sx -> sx **)

let run_conv = function
| SL l ->
  (match l with
   | [] ->
     sx_err (String ((Ascii (true, true, false, false, false, true, true,
       false)), (String ((Ascii (true, false, false, false, true, true,
       false, false)), (String ((Ascii (true, false, false, true, true, true,
       false, false)), (String ((Ascii (false, true, true, true, false, true,
       false, false)), (String ((Ascii (true, true, false, false, false,
       true, true, false)), (String ((Ascii (true, true, true, true, false,
       true, true, false)), (String ((Ascii (false, true, true, true, false,
       true, true, false)), (String ((Ascii (false, true, true, false, true,
       true, true, false)), EmptyString))))))))))))))))
   | s :: l0 ->
     (match s with
      | SBytes addr ->
        (match l0 with
         | [] ->
           sx_err (String ((Ascii (true, true, false, false, false, true,
             true, false)), (String ((Ascii (true, false, false, false, true,
             true, false, false)), (String ((Ascii (true, false, false, true,
             true, true, false, false)), (String ((Ascii (false, true, true,
             true, false, true, false, false)), (String ((Ascii (true, true,
             false, false, false, true, true, false)), (String ((Ascii (true,
             true, true, true, false, true, true, false)), (String ((Ascii
             (false, true, true, true, false, true, true, false)), (String
             ((Ascii (false, true, true, false, true, true, true, false)),
             EmptyString))))))))))))))))
         | s0 :: l1 ->
           (match s0 with
            | SBytes sigt ->
              (match l1 with
               | [] ->
                 sx_err (String ((Ascii (true, true, false, false, false,
                   true, true, false)), (String ((Ascii (true, false, false,
                   false, true, true, false, false)), (String ((Ascii (true,
                   false, false, true, true, true, false, false)), (String
                   ((Ascii (false, true, true, true, false, true, false,
                   false)), (String ((Ascii (true, true, false, false, false,
                   true, true, false)), (String ((Ascii (true, true, true,
                   true, false, true, true, false)), (String ((Ascii (false,
                   true, true, true, false, true, true, false)), (String
                   ((Ascii (false, true, true, false, true, true, true,
                   false)), EmptyString))))))))))))))))
               | b64o :: l2 ->
                 (match l2 with
                  | [] ->
                    let tp = { p_address = addr; p_ts = Z0; p_domain = [];
                      p_signature = sigt; p_payload = []; p_state_init = [] }
                    in
                    SL
                    ((out_res (fun p -> SL ((SZ p.m_wc) :: ((SBytes
                       p.m_addr) :: ((SBytes p.m_sig) :: []))))
                       (convert (fun _ -> opt_bytes b64o) tp)) :: ((match 
                                                                    index_colon
                                                                    addr with
                                                                    | Some _ ->
                                                                    out_res
                                                                    sx_acc
                                                                    (parse_account_id
                                                                    addr)
                                                                    | None ->
                                                                    SA
                                                                    (String
                                                                    ((Ascii
                                                                    (false,
                                                                    true,
                                                                    true,
                                                                    true,
                                                                    false,
                                                                    true,
                                                                    true,
                                                                    false)),
                                                                    (String
                                                                    ((Ascii
                                                                    (true,
                                                                    true,
                                                                    true,
                                                                    true,
                                                                    false,
                                                                    true,
                                                                    true,
                                                                    false)),
                                                                    (String
                                                                    ((Ascii
                                                                    (true,
                                                                    true,
                                                                    false,
                                                                    false,
                                                                    false,
                                                                    true,
                                                                    true,
                                                                    false)),
                                                                    (String
                                                                    ((Ascii
                                                                    (true,
                                                                    true,
                                                                    true,
                                                                    true,
                                                                    false,
                                                                    true,
                                                                    true,
                                                                    false)),
                                                                    (String
                                                                    ((Ascii
                                                                    (false,
                                                                    false,
                                                                    true,
                                                                    true,
                                                                    false,
                                                                    true,
                                                                    true,
                                                                    false)),
                                                                    (String
                                                                    ((Ascii
                                                                    (true,
                                                                    true,
                                                                    true,
                                                                    true,
                                                                    false,
                                                                    true,
                                                                    true,
                                                                    false)),
                                                                    (String
                                                                    ((Ascii
                                                                    (false,
                                                                    true,
                                                                    true,
                                                                    true,
                                                                    false,
                                                                    true,
                                                                    true,
                                                                    false)),
                                                                    EmptyString))))))))))))))) :: []))
                  | _ :: _ ->
                    sx_err (String ((Ascii (true, true, false, false, false,
                      true, true, false)), (String ((Ascii (true, false,
                      false, false, true, true, false, false)), (String
                      ((Ascii (true, false, false, true, true, true, false,
                      false)), (String ((Ascii (false, true, true, true,
                      false, true, false, false)), (String ((Ascii (true,
                      true, false, false, false, true, true, false)), (String
                      ((Ascii (true, true, true, true, false, true, true,
                      false)), (String ((Ascii (false, true, true, true,
                      false, true, true, false)), (String ((Ascii (false,
                      true, true, false, true, true, true, false)),
                      EmptyString))))))))))))))))))
            | _ ->
              sx_err (String ((Ascii (true, true, false, false, false, true,
                true, false)), (String ((Ascii (true, false, false, false,
                true, true, false, false)), (String ((Ascii (true, false,
                false, true, true, true, false, false)), (String ((Ascii
                (false, true, true, true, false, true, false, false)),
                (String ((Ascii (true, true, false, false, false, true, true,
                false)), (String ((Ascii (true, true, true, true, false,
                true, true, false)), (String ((Ascii (false, true, true,
                true, false, true, true, false)), (String ((Ascii (false,
                true, true, false, true, true, true, false)),
                EmptyString))))))))))))))))))
      | _ ->
        sx_err (String ((Ascii (true, true, false, false, false, true, true,
          false)), (String ((Ascii (true, false, false, false, true, true,
          false, false)), (String ((Ascii (true, false, false, true, true,
          true, false, false)), (String ((Ascii (false, true, true, true,
          false, true, false, false)), (String ((Ascii (true, true, false,
          false, false, true, true, false)), (String ((Ascii (true, true,
          true, true, false, true, true, false)), (String ((Ascii (false,
          true, true, true, false, true, true, false)), (String ((Ascii
          (false, true, true, false, true, true, true, false)),
          EmptyString))))))))))))))))))
| _ ->
  sx_err (String ((Ascii (true, true, false, false, false, true, true,
    false)), (String ((Ascii (true, false, false, false, true, true, false,
    false)), (String ((Ascii (true, false, false, true, true, true, false,
    false)), (String ((Ascii (false, true, true, true, false, true, false,
    false)), (String ((Ascii (true, true, false, false, false, true, true,
    false)), (String ((Ascii (true, true, true, true, false, true, true,
    false)), (String ((Ascii (false, true, true, true, false, true, true,
    false)), (String ((Ascii (false, true, true, false, true, true, true,
    false)), EmptyString))))))))))))))))

(** val run_payload : sx -> sx **)

let run_payload = function
| SL l ->
  (match l with
   | [] ->
     sx_err (String ((Ascii (true, true, false, false, false, true, true,
       false)), (String ((Ascii (true, false, false, false, true, true,
       false, false)), (String ((Ascii (true, false, false, true, true, true,
       false, false)), (String ((Ascii (false, true, true, true, false, true,
       false, false)), (String ((Ascii (false, false, false, false, true,
       true, true, false)), (String ((Ascii (true, false, false, false,
       false, true, true, false)), (String ((Ascii (true, false, false, true,
       true, true, true, false)), (String ((Ascii (false, false, true, true,
       false, true, true, false)), (String ((Ascii (true, true, true, true,
       false, true, true, false)), (String ((Ascii (true, false, false,
       false, false, true, true, false)), (String ((Ascii (false, false,
       true, false, false, true, true, false)),
       EmptyString))))))))))))))))))))))
   | s :: l0 ->
     (match s with
      | SBytes secret ->
        (match l0 with
         | [] ->
           sx_err (String ((Ascii (true, true, false, false, false, true,
             true, false)), (String ((Ascii (true, false, false, false, true,
             true, false, false)), (String ((Ascii (true, false, false, true,
             true, true, false, false)), (String ((Ascii (false, true, true,
             true, false, true, false, false)), (String ((Ascii (false,
             false, false, false, true, true, true, false)), (String ((Ascii
             (true, false, false, false, false, true, true, false)), (String
             ((Ascii (true, false, false, true, true, true, true, false)),
             (String ((Ascii (false, false, true, true, false, true, true,
             false)), (String ((Ascii (true, true, true, true, false, true,
             true, false)), (String ((Ascii (true, false, false, false,
             false, true, true, false)), (String ((Ascii (false, false, true,
             false, false, true, true, false)),
             EmptyString))))))))))))))))))))))
         | s0 :: l1 ->
           (match s0 with
            | SZ lt ->
              (match l1 with
               | [] ->
                 sx_err (String ((Ascii (true, true, false, false, false,
                   true, true, false)), (String ((Ascii (true, false, false,
                   false, true, true, false, false)), (String ((Ascii (true,
                   false, false, true, true, true, false, false)), (String
                   ((Ascii (false, true, true, true, false, true, false,
                   false)), (String ((Ascii (false, false, false, false,
                   true, true, true, false)), (String ((Ascii (true, false,
                   false, false, false, true, true, false)), (String ((Ascii
                   (true, false, false, true, true, true, true, false)),
                   (String ((Ascii (false, false, true, true, false, true,
                   true, false)), (String ((Ascii (true, true, true, true,
                   false, true, true, false)), (String ((Ascii (true, false,
                   false, false, false, true, true, false)), (String ((Ascii
                   (false, false, true, false, false, true, true, false)),
                   EmptyString))))))))))))))))))))))
               | s1 :: l2 ->
                 (match s1 with
                  | SZ now ->
                    (match l2 with
                     | [] ->
                       sx_err (String ((Ascii (true, true, false, false,
                         false, true, true, false)), (String ((Ascii (true,
                         false, false, false, true, true, false, false)),
                         (String ((Ascii (true, false, false, true, true,
                         true, false, false)), (String ((Ascii (false, true,
                         true, true, false, true, false, false)), (String
                         ((Ascii (false, false, false, false, true, true,
                         true, false)), (String ((Ascii (true, false, false,
                         false, false, true, true, false)), (String ((Ascii
                         (true, false, false, true, true, true, true,
                         false)), (String ((Ascii (false, false, true, true,
                         false, true, true, false)), (String ((Ascii (true,
                         true, true, true, false, true, true, false)),
                         (String ((Ascii (true, false, false, false, false,
                         true, true, false)), (String ((Ascii (false, false,
                         true, false, false, true, true, false)),
                         EmptyString))))))))))))))))))))))
                     | s2 :: l3 ->
                       (match s2 with
                        | SBytes pl ->
                          (match l3 with
                           | [] ->
                             sx_err (String ((Ascii (true, true, false,
                               false, false, true, true, false)), (String
                               ((Ascii (true, false, false, false, true,
                               true, false, false)), (String ((Ascii (true,
                               false, false, true, true, true, false,
                               false)), (String ((Ascii (false, true, true,
                               true, false, true, false, false)), (String
                               ((Ascii (false, false, false, false, true,
                               true, true, false)), (String ((Ascii (true,
                               false, false, false, false, true, true,
                               false)), (String ((Ascii (true, false, false,
                               true, true, true, true, false)), (String
                               ((Ascii (false, false, true, true, false,
                               true, true, false)), (String ((Ascii (true,
                               true, true, true, false, true, true, false)),
                               (String ((Ascii (true, false, false, false,
                               false, true, true, false)), (String ((Ascii
                               (false, false, true, false, false, true, true,
                               false)), EmptyString))))))))))))))))))))))
                           | s3 :: l4 ->
                             (match s3 with
                              | SL ht ->
                                (match l4 with
                                 | [] ->
                                   out_res (fun x -> SB x)
                                     (check_payload (hmac_of ht) secret
                                       (lifetime_or_default lt
                                         defaultLifeTimePayload) now pl)
                                 | _ :: _ ->
                                   sx_err (String ((Ascii (true, true, false,
                                     false, false, true, true, false)),
                                     (String ((Ascii (true, false, false,
                                     false, true, true, false, false)),
                                     (String ((Ascii (true, false, false,
                                     true, true, true, false, false)),
                                     (String ((Ascii (false, true, true,
                                     true, false, true, false, false)),
                                     (String ((Ascii (false, false, false,
                                     false, true, true, true, false)),
                                     (String ((Ascii (true, false, false,
                                     false, false, true, true, false)),
                                     (String ((Ascii (true, false, false,
                                     true, true, true, true, false)), (String
                                     ((Ascii (false, false, true, true,
                                     false, true, true, false)), (String
                                     ((Ascii (true, true, true, true, false,
                                     true, true, false)), (String ((Ascii
                                     (true, false, false, false, false, true,
                                     true, false)), (String ((Ascii (false,
                                     false, true, false, false, true, true,
                                     false)),
                                     EmptyString)))))))))))))))))))))))
                              | _ ->
                                sx_err (String ((Ascii (true, true, false,
                                  false, false, true, true, false)), (String
                                  ((Ascii (true, false, false, false, true,
                                  true, false, false)), (String ((Ascii
                                  (true, false, false, true, true, true,
                                  false, false)), (String ((Ascii (false,
                                  true, true, true, false, true, false,
                                  false)), (String ((Ascii (false, false,
                                  false, false, true, true, true, false)),
                                  (String ((Ascii (true, false, false, false,
                                  false, true, true, false)), (String ((Ascii
                                  (true, false, false, true, true, true,
                                  true, false)), (String ((Ascii (false,
                                  false, true, true, false, true, true,
                                  false)), (String ((Ascii (true, true, true,
                                  true, false, true, true, false)), (String
                                  ((Ascii (true, false, false, false, false,
                                  true, true, false)), (String ((Ascii
                                  (false, false, true, false, false, true,
                                  true, false)),
                                  EmptyString))))))))))))))))))))))))
                        | _ ->
                          sx_err (String ((Ascii (true, true, false, false,
                            false, true, true, false)), (String ((Ascii
                            (true, false, false, false, true, true, false,
                            false)), (String ((Ascii (true, false, false,
                            true, true, true, false, false)), (String ((Ascii
                            (false, true, true, true, false, true, false,
                            false)), (String ((Ascii (false, false, false,
                            false, true, true, true, false)), (String ((Ascii
                            (true, false, false, false, false, true, true,
                            false)), (String ((Ascii (true, false, false,
                            true, true, true, true, false)), (String ((Ascii
                            (false, false, true, true, false, true, true,
                            false)), (String ((Ascii (true, true, true, true,
                            false, true, true, false)), (String ((Ascii
                            (true, false, false, false, false, true, true,
                            false)), (String ((Ascii (false, false, true,
                            false, false, true, true, false)),
                            EmptyString))))))))))))))))))))))))
                  | _ ->
                    sx_err (String ((Ascii (true, true, false, false, false,
                      true, true, false)), (String ((Ascii (true, false,
                      false, false, true, true, false, false)), (String
                      ((Ascii (true, false, false, true, true, true, false,
                      false)), (String ((Ascii (false, true, true, true,
                      false, true, false, false)), (String ((Ascii (false,
                      false, false, false, true, true, true, false)), (String
                      ((Ascii (true, false, false, false, false, true, true,
                      false)), (String ((Ascii (true, false, false, true,
                      true, true, true, false)), (String ((Ascii (false,
                      false, true, true, false, true, true, false)), (String
                      ((Ascii (true, true, true, true, false, true, true,
                      false)), (String ((Ascii (true, false, false, false,
                      false, true, true, false)), (String ((Ascii (false,
                      false, true, false, false, true, true, false)),
                      EmptyString))))))))))))))))))))))))
            | _ ->
              sx_err (String ((Ascii (true, true, false, false, false, true,
                true, false)), (String ((Ascii (true, false, false, false,
                true, true, false, false)), (String ((Ascii (true, false,
                false, true, true, true, false, false)), (String ((Ascii
                (false, true, true, true, false, true, false, false)),
                (String ((Ascii (false, false, false, false, true, true,
                true, false)), (String ((Ascii (true, false, false, false,
                false, true, true, false)), (String ((Ascii (true, false,
                false, true, true, true, true, false)), (String ((Ascii
                (false, false, true, true, false, true, true, false)),
                (String ((Ascii (true, true, true, true, false, true, true,
                false)), (String ((Ascii (true, false, false, false, false,
                true, true, false)), (String ((Ascii (false, false, true,
                false, false, true, true, false)),
                EmptyString))))))))))))))))))))))))
      | _ ->
        sx_err (String ((Ascii (true, true, false, false, false, true, true,
          false)), (String ((Ascii (true, false, false, false, true, true,
          false, false)), (String ((Ascii (true, false, false, true, true,
          true, false, false)), (String ((Ascii (false, true, true, true,
          false, true, false, false)), (String ((Ascii (false, false, false,
          false, true, true, true, false)), (String ((Ascii (true, false,
          false, false, false, true, true, false)), (String ((Ascii (true,
          false, false, true, true, true, true, false)), (String ((Ascii
          (false, false, true, true, false, true, true, false)), (String
          ((Ascii (true, true, true, true, false, true, true, false)),
          (String ((Ascii (true, false, false, false, false, true, true,
          false)), (String ((Ascii (false, false, true, false, false, true,
          true, false)), EmptyString))))))))))))))))))))))))
| _ ->
  sx_err (String ((Ascii (true, true, false, false, false, true, true,
    false)), (String ((Ascii (true, false, false, false, true, true, false,
    false)), (String ((Ascii (true, false, false, true, true, true, false,
    false)), (String ((Ascii (false, true, true, true, false, true, false,
    false)), (String ((Ascii (false, false, false, false, true, true, true,
    false)), (String ((Ascii (true, false, false, false, false, true, true,
    false)), (String ((Ascii (true, false, false, true, true, true, true,
    false)), (String ((Ascii (false, false, true, true, false, true, true,
    false)), (String ((Ascii (true, true, true, true, false, true, true,
    false)), (String ((Ascii (true, false, false, false, false, true, true,
    false)), (String ((Ascii (false, false, true, false, false, true, true,
    false)), EmptyString))))))))))))))))))))))

(** val run_pubkey : sx -> sx **)

let run_pubkey a =
  match get_wallet_pubkey (exec_of a) with
  | Some k0 -> SBytes k0
  | None ->
    SA (String ((Ascii (true, false, true, false, false, true, true, false)),
      (String ((Ascii (false, true, false, false, true, true, true, false)),
      (String ((Ascii (false, true, false, false, true, true, true, false)),
      EmptyString))))))

(** val run_stateinit : sx -> sx **)

let run_stateinit = function
| SL l ->
  (match l with
   | [] ->
     sx_err (String ((Ascii (true, true, false, false, false, true, true,
       false)), (String ((Ascii (true, false, false, false, true, true,
       false, false)), (String ((Ascii (true, false, false, true, true, true,
       false, false)), (String ((Ascii (false, true, true, true, false, true,
       false, false)), (String ((Ascii (true, true, false, false, true, true,
       true, false)), (String ((Ascii (false, false, true, false, true, true,
       true, false)), (String ((Ascii (true, false, false, false, false,
       true, true, false)), (String ((Ascii (false, false, true, false, true,
       true, true, false)), (String ((Ascii (true, false, true, false, false,
       true, true, false)), (String ((Ascii (true, false, false, true, false,
       true, true, false)), (String ((Ascii (false, true, true, true, false,
       true, true, false)), (String ((Ascii (true, false, false, true, false,
       true, true, false)), (String ((Ascii (false, false, true, false, true,
       true, true, false)), EmptyString))))))))))))))))))))))))))
   | s :: l0 ->
     (match s with
      | SBytes addr ->
        (match l0 with
         | [] ->
           sx_err (String ((Ascii (true, true, false, false, false, true,
             true, false)), (String ((Ascii (true, false, false, false, true,
             true, false, false)), (String ((Ascii (true, false, false, true,
             true, true, false, false)), (String ((Ascii (false, true, true,
             true, false, true, false, false)), (String ((Ascii (true, true,
             false, false, true, true, true, false)), (String ((Ascii (false,
             false, true, false, true, true, true, false)), (String ((Ascii
             (true, false, false, false, false, true, true, false)), (String
             ((Ascii (false, false, true, false, true, true, true, false)),
             (String ((Ascii (true, false, true, false, false, true, true,
             false)), (String ((Ascii (true, false, false, true, false, true,
             true, false)), (String ((Ascii (false, true, true, true, false,
             true, true, false)), (String ((Ascii (true, false, false, true,
             false, true, true, false)), (String ((Ascii (false, false, true,
             false, true, true, true, false)),
             EmptyString))))))))))))))))))))))))))
         | s0 :: l1 ->
           (match s0 with
            | SBytes si ->
              (match l1 with
               | [] ->
                 sx_err (String ((Ascii (true, true, false, false, false,
                   true, true, false)), (String ((Ascii (true, false, false,
                   false, true, true, false, false)), (String ((Ascii (true,
                   false, false, true, true, true, false, false)), (String
                   ((Ascii (false, true, true, true, false, true, false,
                   false)), (String ((Ascii (true, true, false, false, true,
                   true, true, false)), (String ((Ascii (false, false, true,
                   false, true, true, true, false)), (String ((Ascii (true,
                   false, false, false, false, true, true, false)), (String
                   ((Ascii (false, false, true, false, true, true, true,
                   false)), (String ((Ascii (true, false, true, false, false,
                   true, true, false)), (String ((Ascii (true, false, false,
                   true, false, true, true, false)), (String ((Ascii (false,
                   true, true, true, false, true, true, false)), (String
                   ((Ascii (true, false, false, true, false, true, true,
                   false)), (String ((Ascii (false, false, true, false, true,
                   true, true, false)), EmptyString))))))))))))))))))))))))))
               | bo :: l2 ->
                 (match l2 with
                  | [] ->
                    sx_err (String ((Ascii (true, true, false, false, false,
                      true, true, false)), (String ((Ascii (true, false,
                      false, false, true, true, false, false)), (String
                      ((Ascii (true, false, false, true, true, true, false,
                      false)), (String ((Ascii (false, true, true, true,
                      false, true, false, false)), (String ((Ascii (true,
                      true, false, false, true, true, true, false)), (String
                      ((Ascii (false, false, true, false, true, true, true,
                      false)), (String ((Ascii (true, false, false, false,
                      false, true, true, false)), (String ((Ascii (false,
                      false, true, false, true, true, true, false)), (String
                      ((Ascii (true, false, true, false, false, true, true,
                      false)), (String ((Ascii (true, false, false, true,
                      false, true, true, false)), (String ((Ascii (false,
                      true, true, true, false, true, true, false)), (String
                      ((Ascii (true, false, false, true, false, true, true,
                      false)), (String ((Ascii (false, false, true, false,
                      true, true, true, false)),
                      EmptyString))))))))))))))))))))))))))
                  | lo :: l3 ->
                    (match l3 with
                     | [] ->
                       sx_err (String ((Ascii (true, true, false, false,
                         false, true, true, false)), (String ((Ascii (true,
                         false, false, false, true, true, false, false)),
                         (String ((Ascii (true, false, false, true, true,
                         true, false, false)), (String ((Ascii (false, true,
                         true, true, false, true, false, false)), (String
                         ((Ascii (true, true, false, false, true, true, true,
                         false)), (String ((Ascii (false, false, true, false,
                         true, true, true, false)), (String ((Ascii (true,
                         false, false, false, false, true, true, false)),
                         (String ((Ascii (false, false, true, false, true,
                         true, true, false)), (String ((Ascii (true, false,
                         true, false, false, true, true, false)), (String
                         ((Ascii (true, false, false, true, false, true,
                         true, false)), (String ((Ascii (false, true, true,
                         true, false, true, true, false)), (String ((Ascii
                         (true, false, false, true, false, true, true,
                         false)), (String ((Ascii (false, false, true, false,
                         true, true, true, false)),
                         EmptyString))))))))))))))))))))))))))
                     | eo :: l4 ->
                       (match l4 with
                        | [] ->
                          let boc = boc_of bo in
                          SL
                          ((out_res (fun x -> SB x)
                             (compare_state_init boc addr si)) :: ((out_res
                                                                    (fun x ->
                                                                    SBytes x)
                                                                    (parse_state_init_key
                                                                    boc
                                                                    (fun _ ->
                                                                    bool_of lo)
                                                                    (fun _ ->
                                                                    bool_of eo)
                                                                    known_wallets
                                                                    si)) :: []))
                        | _ :: _ ->
                          sx_err (String ((Ascii (true, true, false, false,
                            false, true, true, false)), (String ((Ascii
                            (true, false, false, false, true, true, false,
                            false)), (String ((Ascii (true, false, false,
                            true, true, true, false, false)), (String ((Ascii
                            (false, true, true, true, false, true, false,
                            false)), (String ((Ascii (true, true, false,
                            false, true, true, true, false)), (String ((Ascii
                            (false, false, true, false, true, true, true,
                            false)), (String ((Ascii (true, false, false,
                            false, false, true, true, false)), (String
                            ((Ascii (false, false, true, false, true, true,
                            true, false)), (String ((Ascii (true, false,
                            true, false, false, true, true, false)), (String
                            ((Ascii (true, false, false, true, false, true,
                            true, false)), (String ((Ascii (false, true,
                            true, true, false, true, true, false)), (String
                            ((Ascii (true, false, false, true, false, true,
                            true, false)), (String ((Ascii (false, false,
                            true, false, true, true, true, false)),
                            EmptyString))))))))))))))))))))))))))))))
            | _ ->
              sx_err (String ((Ascii (true, true, false, false, false, true,
                true, false)), (String ((Ascii (true, false, false, false,
                true, true, false, false)), (String ((Ascii (true, false,
                false, true, true, true, false, false)), (String ((Ascii
                (false, true, true, true, false, true, false, false)),
                (String ((Ascii (true, true, false, false, true, true, true,
                false)), (String ((Ascii (false, false, true, false, true,
                true, true, false)), (String ((Ascii (true, false, false,
                false, false, true, true, false)), (String ((Ascii (false,
                false, true, false, true, true, true, false)), (String
                ((Ascii (true, false, true, false, false, true, true,
                false)), (String ((Ascii (true, false, false, true, false,
                true, true, false)), (String ((Ascii (false, true, true,
                true, false, true, true, false)), (String ((Ascii (true,
                false, false, true, false, true, true, false)), (String
                ((Ascii (false, false, true, false, true, true, true,
                false)), EmptyString))))))))))))))))))))))))))))
      | _ ->
        sx_err (String ((Ascii (true, true, false, false, false, true, true,
          false)), (String ((Ascii (true, false, false, false, true, true,
          false, false)), (String ((Ascii (true, false, false, true, true,
          true, false, false)), (String ((Ascii (false, true, true, true,
          false, true, false, false)), (String ((Ascii (true, true, false,
          false, true, true, true, false)), (String ((Ascii (false, false,
          true, false, true, true, true, false)), (String ((Ascii (true,
          false, false, false, false, true, true, false)), (String ((Ascii
          (false, false, true, false, true, true, true, false)), (String
          ((Ascii (true, false, true, false, false, true, true, false)),
          (String ((Ascii (true, false, false, true, false, true, true,
          false)), (String ((Ascii (false, true, true, true, false, true,
          true, false)), (String ((Ascii (true, false, false, true, false,
          true, true, false)), (String ((Ascii (false, false, true, false,
          true, true, true, false)), EmptyString))))))))))))))))))))))))))))
| _ ->
  sx_err (String ((Ascii (true, true, false, false, false, true, true,
    false)), (String ((Ascii (true, false, false, false, true, true, false,
    false)), (String ((Ascii (true, false, false, true, true, true, false,
    false)), (String ((Ascii (false, true, true, true, false, true, false,
    false)), (String ((Ascii (true, true, false, false, true, true, true,
    false)), (String ((Ascii (false, false, true, false, true, true, true,
    false)), (String ((Ascii (true, false, false, false, false, true, true,
    false)), (String ((Ascii (false, false, true, false, true, true, true,
    false)), (String ((Ascii (true, false, true, false, false, true, true,
    false)), (String ((Ascii (true, false, false, true, false, true, true,
    false)), (String ((Ascii (false, true, true, true, false, true, true,
    false)), (String ((Ascii (true, false, false, true, false, true, true,
    false)), (String ((Ascii (false, false, true, false, true, true, true,
    false)), EmptyString))))))))))))))))))))))))))

(** val proof_of_sx : sx -> proof option **)

let proof_of_sx = function
| SL l ->
  (match l with
   | [] -> None
   | s :: l0 ->
     (match s with
      | SBytes addr ->
        (match l0 with
         | [] -> None
         | s0 :: l1 ->
           (match s0 with
            | SZ ts ->
              (match l1 with
               | [] -> None
               | s1 :: l2 ->
                 (match s1 with
                  | SBytes dom ->
                    (match l2 with
                     | [] -> None
                     | s2 :: l3 ->
                       (match s2 with
                        | SBytes sig0 ->
                          (match l3 with
                           | [] -> None
                           | s3 :: l4 ->
                             (match s3 with
                              | SBytes pl ->
                                (match l4 with
                                 | [] -> None
                                 | s4 :: l5 ->
                                   (match s4 with
                                    | SBytes si ->
                                      (match l5 with
                                       | [] ->
                                         Some { p_address = addr; p_ts = ts;
                                           p_domain = dom; p_signature =
                                           sig0; p_payload = pl;
                                           p_state_init = si }
                                       | _ :: _ -> None)
                                    | _ -> None))
                              | _ -> None))
                        | _ -> None))
                  | _ -> None))
            | _ -> None))
      | _ -> None))
| _ -> None

(** val run_check : sx -> sx **)

let run_check = function
| SL l ->
  (match l with
   | [] ->
     sx_err (String ((Ascii (true, true, false, false, false, true, true,
       false)), (String ((Ascii (true, false, false, false, true, true,
       false, false)), (String ((Ascii (true, false, false, true, true, true,
       false, false)), (String ((Ascii (false, true, true, true, false, true,
       false, false)), (String ((Ascii (true, true, false, false, false,
       true, true, false)), (String ((Ascii (false, false, false, true,
       false, true, true, false)), (String ((Ascii (true, false, true, false,
       false, true, true, false)), (String ((Ascii (true, true, false, false,
       false, true, true, false)), (String ((Ascii (true, true, false, true,
       false, true, true, false)), EmptyString))))))))))))))))))
   | s :: l0 ->
     (match s with
      | SBytes secret ->
        (match l0 with
         | [] ->
           sx_err (String ((Ascii (true, true, false, false, false, true,
             true, false)), (String ((Ascii (true, false, false, false, true,
             true, false, false)), (String ((Ascii (true, false, false, true,
             true, true, false, false)), (String ((Ascii (false, true, true,
             true, false, true, false, false)), (String ((Ascii (true, true,
             false, false, false, true, true, false)), (String ((Ascii
             (false, false, false, true, false, true, true, false)), (String
             ((Ascii (true, false, true, false, false, true, true, false)),
             (String ((Ascii (true, true, false, false, false, true, true,
             false)), (String ((Ascii (true, true, false, true, false, true,
             true, false)), EmptyString))))))))))))))))))
         | s0 :: l1 ->
           (match s0 with
            | SZ ltp ->
              (match l1 with
               | [] ->
                 sx_err (String ((Ascii (true, true, false, false, false,
                   true, true, false)), (String ((Ascii (true, false, false,
                   false, true, true, false, false)), (String ((Ascii (true,
                   false, false, true, true, true, false, false)), (String
                   ((Ascii (false, true, true, true, false, true, false,
                   false)), (String ((Ascii (true, true, false, false, false,
                   true, true, false)), (String ((Ascii (false, false, false,
                   true, false, true, true, false)), (String ((Ascii (true,
                   false, true, false, false, true, true, false)), (String
                   ((Ascii (true, true, false, false, false, true, true,
                   false)), (String ((Ascii (true, true, false, true, false,
                   true, true, false)), EmptyString))))))))))))))))))
               | s1 :: l2 ->
                 (match s1 with
                  | SZ ltpl ->
                    (match l2 with
                     | [] ->
                       sx_err (String ((Ascii (true, true, false, false,
                         false, true, true, false)), (String ((Ascii (true,
                         false, false, false, true, true, false, false)),
                         (String ((Ascii (true, false, false, true, true,
                         true, false, false)), (String ((Ascii (false, true,
                         true, true, false, true, false, false)), (String
                         ((Ascii (true, true, false, false, false, true,
                         true, false)), (String ((Ascii (false, false, false,
                         true, false, true, true, false)), (String ((Ascii
                         (true, false, true, false, false, true, true,
                         false)), (String ((Ascii (true, true, false, false,
                         false, true, true, false)), (String ((Ascii (true,
                         true, false, true, false, true, true, false)),
                         EmptyString))))))))))))))))))
                     | s2 :: l3 ->
                       (match s2 with
                        | SBytes dom ->
                          (match l3 with
                           | [] ->
                             sx_err (String ((Ascii (true, true, false,
                               false, false, true, true, false)), (String
                               ((Ascii (true, false, false, false, true,
                               true, false, false)), (String ((Ascii (true,
                               false, false, true, true, true, false,
                               false)), (String ((Ascii (false, true, true,
                               true, false, true, false, false)), (String
                               ((Ascii (true, true, false, false, false,
                               true, true, false)), (String ((Ascii (false,
                               false, false, true, false, true, true,
                               false)), (String ((Ascii (true, false, true,
                               false, false, true, true, false)), (String
                               ((Ascii (true, true, false, false, false,
                               true, true, false)), (String ((Ascii (true,
                               true, false, true, false, true, true, false)),
                               EmptyString))))))))))))))))))
                           | ex :: l4 ->
                             (match l4 with
                              | [] ->
                                sx_err (String ((Ascii (true, true, false,
                                  false, false, true, true, false)), (String
                                  ((Ascii (true, false, false, false, true,
                                  true, false, false)), (String ((Ascii
                                  (true, false, false, true, true, true,
                                  false, false)), (String ((Ascii (false,
                                  true, true, true, false, true, false,
                                  false)), (String ((Ascii (true, true,
                                  false, false, false, true, true, false)),
                                  (String ((Ascii (false, false, false, true,
                                  false, true, true, false)), (String ((Ascii
                                  (true, false, true, false, false, true,
                                  true, false)), (String ((Ascii (true, true,
                                  false, false, false, true, true, false)),
                                  (String ((Ascii (true, true, false, true,
                                  false, true, true, false)),
                                  EmptyString))))))))))))))))))
                              | pr :: l5 ->
                                (match l5 with
                                 | [] ->
                                   sx_err (String ((Ascii (true, true, false,
                                     false, false, true, true, false)),
                                     (String ((Ascii (true, false, false,
                                     false, true, true, false, false)),
                                     (String ((Ascii (true, false, false,
                                     true, true, true, false, false)),
                                     (String ((Ascii (false, true, true,
                                     true, false, true, false, false)),
                                     (String ((Ascii (true, true, false,
                                     false, false, true, true, false)),
                                     (String ((Ascii (false, false, false,
                                     true, false, true, true, false)),
                                     (String ((Ascii (true, false, true,
                                     false, false, true, true, false)),
                                     (String ((Ascii (true, true, false,
                                     false, false, true, true, false)),
                                     (String ((Ascii (true, true, false,
                                     true, false, true, true, false)),
                                     EmptyString))))))))))))))))))
                                 | s3 :: l6 ->
                                   (match s3 with
                                    | SZ now ->
                                      (match l6 with
                                       | [] ->
                                         sx_err (String ((Ascii (true, true,
                                           false, false, false, true, true,
                                           false)), (String ((Ascii (true,
                                           false, false, false, true, true,
                                           false, false)), (String ((Ascii
                                           (true, false, false, true, true,
                                           true, false, false)), (String
                                           ((Ascii (false, true, true, true,
                                           false, true, false, false)),
                                           (String ((Ascii (true, true,
                                           false, false, false, true, true,
                                           false)), (String ((Ascii (false,
                                           false, false, true, false, true,
                                           true, false)), (String ((Ascii
                                           (true, false, true, false, false,
                                           true, true, false)), (String
                                           ((Ascii (true, true, false, false,
                                           false, true, true, false)),
                                           (String ((Ascii (true, true,
                                           false, true, false, true, true,
                                           false)),
                                           EmptyString))))))))))))))))))
                                       | s4 :: l7 ->
                                         (match s4 with
                                          | SL ht ->
                                            (match l7 with
                                             | [] ->
                                               sx_err (String ((Ascii (true,
                                                 true, false, false, false,
                                                 true, true, false)), (String
                                                 ((Ascii (true, false, false,
                                                 false, true, true, false,
                                                 false)), (String ((Ascii
                                                 (true, false, false, true,
                                                 true, true, false, false)),
                                                 (String ((Ascii (false,
                                                 true, true, true, false,
                                                 true, false, false)),
                                                 (String ((Ascii (true, true,
                                                 false, false, false, true,
                                                 true, false)), (String
                                                 ((Ascii (false, false,
                                                 false, true, false, true,
                                                 true, false)), (String
                                                 ((Ascii (true, false, true,
                                                 false, false, true, true,
                                                 false)), (String ((Ascii
                                                 (true, true, false, false,
                                                 false, true, true, false)),
                                                 (String ((Ascii (true, true,
                                                 false, true, false, true,
                                                 true, false)),
                                                 EmptyString))))))))))))))))))
                                             | b64o :: l8 ->
                                               (match l8 with
                                                | [] ->
                                                  sx_err (String ((Ascii
                                                    (true, true, false,
                                                    false, false, true, true,
                                                    false)), (String ((Ascii
                                                    (true, false, false,
                                                    false, true, true, false,
                                                    false)), (String ((Ascii
                                                    (true, false, false,
                                                    true, true, true, false,
                                                    false)), (String ((Ascii
                                                    (false, true, true, true,
                                                    false, true, false,
                                                    false)), (String ((Ascii
                                                    (true, true, false,
                                                    false, false, true, true,
                                                    false)), (String ((Ascii
                                                    (false, false, false,
                                                    true, false, true, true,
                                                    false)), (String ((Ascii
                                                    (true, false, true,
                                                    false, false, true, true,
                                                    false)), (String ((Ascii
                                                    (true, true, false,
                                                    false, false, true, true,
                                                    false)), (String ((Ascii
                                                    (true, true, false, true,
                                                    false, true, true,
                                                    false)),
                                                    EmptyString))))))))))))))))))
                                                | bo :: l9 ->
                                                  (match l9 with
                                                   | [] ->
                                                     sx_err (String ((Ascii
                                                       (true, true, false,
                                                       false, false, true,
                                                       true, false)), (String
                                                       ((Ascii (true, false,
                                                       false, false, true,
                                                       true, false, false)),
                                                       (String ((Ascii (true,
                                                       false, false, true,
                                                       true, true, false,
                                                       false)), (String
                                                       ((Ascii (false, true,
                                                       true, true, false,
                                                       true, false, false)),
                                                       (String ((Ascii (true,
                                                       true, false, false,
                                                       false, true, true,
                                                       false)), (String
                                                       ((Ascii (false, false,
                                                       false, true, false,
                                                       true, true, false)),
                                                       (String ((Ascii (true,
                                                       false, true, false,
                                                       false, true, true,
                                                       false)), (String
                                                       ((Ascii (true, true,
                                                       false, false, false,
                                                       true, true, false)),
                                                       (String ((Ascii (true,
                                                       true, false, true,
                                                       false, true, true,
                                                       false)),
                                                       EmptyString))))))))))))))))))
                                                   | lo :: l10 ->
                                                     (match l10 with
                                                      | [] ->
                                                        sx_err (String
                                                          ((Ascii (true,
                                                          true, false, false,
                                                          false, true, true,
                                                          false)), (String
                                                          ((Ascii (true,
                                                          false, false,
                                                          false, true, true,
                                                          false, false)),
                                                          (String ((Ascii
                                                          (true, false,
                                                          false, true, true,
                                                          true, false,
                                                          false)), (String
                                                          ((Ascii (false,
                                                          true, true, true,
                                                          false, true, false,
                                                          false)), (String
                                                          ((Ascii (true,
                                                          true, false, false,
                                                          false, true, true,
                                                          false)), (String
                                                          ((Ascii (false,
                                                          false, false, true,
                                                          false, true, true,
                                                          false)), (String
                                                          ((Ascii (true,
                                                          false, true, false,
                                                          false, true, true,
                                                          false)), (String
                                                          ((Ascii (true,
                                                          true, false, false,
                                                          false, true, true,
                                                          false)), (String
                                                          ((Ascii (true,
                                                          true, false, true,
                                                          false, true, true,
                                                          false)),
                                                          EmptyString))))))))))))))))))
                                                      | eo :: l11 ->
                                                        (match l11 with
                                                         | [] ->
                                                           sx_err (String
                                                             ((Ascii (true,
                                                             true, false,
                                                             false, false,
                                                             true, true,
                                                             false)), (String
                                                             ((Ascii (true,
                                                             false, false,
                                                             false, true,
                                                             true, false,
                                                             false)), (String
                                                             ((Ascii (true,
                                                             false, false,
                                                             true, true,
                                                             true, false,
                                                             false)), (String
                                                             ((Ascii (false,
                                                             true, true,
                                                             true, false,
                                                             true, false,
                                                             false)), (String
                                                             ((Ascii (true,
                                                             true, false,
                                                             false, false,
                                                             true, true,
                                                             false)), (String
                                                             ((Ascii (false,
                                                             false, false,
                                                             true, false,
                                                             true, true,
                                                             false)), (String
                                                             ((Ascii (true,
                                                             false, true,
                                                             false, false,
                                                             true, true,
                                                             false)), (String
                                                             ((Ascii (true,
                                                             true, false,
                                                             false, false,
                                                             true, true,
                                                             false)), (String
                                                             ((Ascii (true,
                                                             true, false,
                                                             true, false,
                                                             true, true,
                                                             false)),
                                                             EmptyString))))))))))))))))))
                                                         | s5 :: l12 ->
                                                           (match s5 with
                                                            | SL vt ->
                                                              (match l12 with
                                                               | [] ->
                                                                 (match 
                                                                  proof_of_sx
                                                                    pr with
                                                                  | Some tp ->
                                                                    let r =
                                                                    check_proof
                                                                    sha256
                                                                    (verify_of
                                                                    vt)
                                                                    (fun _ ->
                                                                    opt_bytes
                                                                    b64o)
                                                                    (boc_of
                                                                    bo)
                                                                    (fun _ ->
                                                                    bool_of lo)
                                                                    (fun _ ->
                                                                    bool_of eo)
                                                                    known_wallets
                                                                    (fun _ ->
                                                                    exec_of ex)
                                                                    (check_payload
                                                                    (hmac_of
                                                                    ht)
                                                                    secret
                                                                    (lifetime_or_default
                                                                    ltpl
                                                                    defaultLifeTimePayload)
                                                                    now)
                                                                    (static_domain
                                                                    dom)
                                                                    (lifetime_or_default
                                                                    ltp
                                                                    defaultLifeTimeProof)
                                                                    now tp
                                                                    in
                                                                    out_res
                                                                    (fun k0 ->
                                                                    SL ((SB
                                                                    true) :: ((SBytes
                                                                    k0) :: [])))
                                                                    r
                                                                  | None ->
                                                                    sx_err
                                                                    (String
                                                                    ((Ascii
                                                                    (true,
                                                                    true,
                                                                    false,
                                                                    false,
                                                                    false,
                                                                    true,
                                                                    true,
                                                                    false)),
                                                                    (String
                                                                    ((Ascii
                                                                    (true,
                                                                    false,
                                                                    false,
                                                                    false,
                                                                    true,
                                                                    true,
                                                                    false,
                                                                    false)),
                                                                    (String
                                                                    ((Ascii
                                                                    (true,
                                                                    false,
                                                                    false,
                                                                    true,
                                                                    true,
                                                                    true,
                                                                    false,
                                                                    false)),
                                                                    (String
                                                                    ((Ascii
                                                                    (false,
                                                                    true,
                                                                    true,
                                                                    true,
                                                                    false,
                                                                    true,
                                                                    false,
                                                                    false)),
                                                                    (String
                                                                    ((Ascii
                                                                    (true,
                                                                    true,
                                                                    false,
                                                                    false,
                                                                    false,
                                                                    true,
                                                                    true,
                                                                    false)),
                                                                    (String
                                                                    ((Ascii
                                                                    (false,
                                                                    false,
                                                                    false,
                                                                    true,
                                                                    false,
                                                                    true,
                                                                    true,
                                                                    false)),
                                                                    (String
                                                                    ((Ascii
                                                                    (true,
                                                                    false,
                                                                    true,
                                                                    false,
                                                                    false,
                                                                    true,
                                                                    true,
                                                                    false)),
                                                                    (String
                                                                    ((Ascii
                                                                    (true,
                                                                    true,
                                                                    false,
                                                                    false,
                                                                    false,
                                                                    true,
                                                                    true,
                                                                    false)),
                                                                    (String
                                                                    ((Ascii
                                                                    (true,
                                                                    true,
                                                                    false,
                                                                    true,
                                                                    false,
                                                                    true,
                                                                    true,
                                                                    false)),
                                                                    (String
                                                                    ((Ascii
                                                                    (false,
                                                                    false,
                                                                    false,
                                                                    false,
                                                                    false,
                                                                    true,
                                                                    false,
                                                                    false)),
                                                                    (String
                                                                    ((Ascii
                                                                    (false,
                                                                    false,
                                                                    false,
                                                                    false,
                                                                    true,
                                                                    true,
                                                                    true,
                                                                    false)),
                                                                    (String
                                                                    ((Ascii
                                                                    (false,
                                                                    true,
                                                                    false,
                                                                    false,
                                                                    true,
                                                                    true,
                                                                    true,
                                                                    false)),
                                                                    (String
                                                                    ((Ascii
                                                                    (true,
                                                                    true,
                                                                    true,
                                                                    true,
                                                                    false,
                                                                    true,
                                                                    true,
                                                                    false)),
                                                                    (String
                                                                    ((Ascii
                                                                    (true,
                                                                    true,
                                                                    true,
                                                                    true,
                                                                    false,
                                                                    true,
                                                                    true,
                                                                    false)),
                                                                    (String
                                                                    ((Ascii
                                                                    (false,
                                                                    true,
                                                                    true,
                                                                    false,
                                                                    false,
                                                                    true,
                                                                    true,
                                                                    false)),
                                                                    EmptyString)))))))))))))))))))))))))))))))
                                                               | _ :: _ ->
                                                                 sx_err
                                                                   (String
                                                                   ((Ascii
                                                                   (true,
                                                                   true,
                                                                   false,
                                                                   false,
                                                                   false,
                                                                   true,
                                                                   true,
                                                                   false)),
                                                                   (String
                                                                   ((Ascii
                                                                   (true,
                                                                   false,
                                                                   false,
                                                                   false,
                                                                   true,
                                                                   true,
                                                                   false,
                                                                   false)),
                                                                   (String
                                                                   ((Ascii
                                                                   (true,
                                                                   false,
                                                                   false,
                                                                   true,
                                                                   true,
                                                                   true,
                                                                   false,
                                                                   false)),
                                                                   (String
                                                                   ((Ascii
                                                                   (false,
                                                                   true,
                                                                   true,
                                                                   true,
                                                                   false,
                                                                   true,
                                                                   false,
                                                                   false)),
                                                                   (String
                                                                   ((Ascii
                                                                   (true,
                                                                   true,
                                                                   false,
                                                                   false,
                                                                   false,
                                                                   true,
                                                                   true,
                                                                   false)),
                                                                   (String
                                                                   ((Ascii
                                                                   (false,
                                                                   false,
                                                                   false,
                                                                   true,
                                                                   false,
                                                                   true,
                                                                   true,
                                                                   false)),
                                                                   (String
                                                                   ((Ascii
                                                                   (true,
                                                                   false,
                                                                   true,
                                                                   false,
                                                                   false,
                                                                   true,
                                                                   true,
                                                                   false)),
                                                                   (String
                                                                   ((Ascii
                                                                   (true,
                                                                   true,
                                                                   false,
                                                                   false,
                                                                   false,
                                                                   true,
                                                                   true,
                                                                   false)),
                                                                   (String
                                                                   ((Ascii
                                                                   (true,
                                                                   true,
                                                                   false,
                                                                   true,
                                                                   false,
                                                                   true,
                                                                   true,
                                                                   false)),
                                                                   EmptyString)))))))))))))))))))
                                                            | _ ->
                                                              sx_err (String
                                                                ((Ascii
                                                                (true, true,
                                                                false, false,
                                                                false, true,
                                                                true,
                                                                false)),
                                                                (String
                                                                ((Ascii
                                                                (true, false,
                                                                false, false,
                                                                true, true,
                                                                false,
                                                                false)),
                                                                (String
                                                                ((Ascii
                                                                (true, false,
                                                                false, true,
                                                                true, true,
                                                                false,
                                                                false)),
                                                                (String
                                                                ((Ascii
                                                                (false, true,
                                                                true, true,
                                                                false, true,
                                                                false,
                                                                false)),
                                                                (String
                                                                ((Ascii
                                                                (true, true,
                                                                false, false,
                                                                false, true,
                                                                true,
                                                                false)),
                                                                (String
                                                                ((Ascii
                                                                (false,
                                                                false, false,
                                                                true, false,
                                                                true, true,
                                                                false)),
                                                                (String
                                                                ((Ascii
                                                                (true, false,
                                                                true, false,
                                                                false, true,
                                                                true,
                                                                false)),
                                                                (String
                                                                ((Ascii
                                                                (true, true,
                                                                false, false,
                                                                false, true,
                                                                true,
                                                                false)),
                                                                (String
                                                                ((Ascii
                                                                (true, true,
                                                                false, true,
                                                                false, true,
                                                                true,
                                                                false)),
                                                                EmptyString))))))))))))))))))))))))
                                          | _ ->
                                            sx_err (String ((Ascii (true,
                                              true, false, false, false,
                                              true, true, false)), (String
                                              ((Ascii (true, false, false,
                                              false, true, true, false,
                                              false)), (String ((Ascii (true,
                                              false, false, true, true, true,
                                              false, false)), (String ((Ascii
                                              (false, true, true, true,
                                              false, true, false, false)),
                                              (String ((Ascii (true, true,
                                              false, false, false, true,
                                              true, false)), (String ((Ascii
                                              (false, false, false, true,
                                              false, true, true, false)),
                                              (String ((Ascii (true, false,
                                              true, false, false, true, true,
                                              false)), (String ((Ascii (true,
                                              true, false, false, false,
                                              true, true, false)), (String
                                              ((Ascii (true, true, false,
                                              true, false, true, true,
                                              false)),
                                              EmptyString))))))))))))))))))))
                                    | _ ->
                                      sx_err (String ((Ascii (true, true,
                                        false, false, false, true, true,
                                        false)), (String ((Ascii (true,
                                        false, false, false, true, true,
                                        false, false)), (String ((Ascii
                                        (true, false, false, true, true,
                                        true, false, false)), (String ((Ascii
                                        (false, true, true, true, false,
                                        true, false, false)), (String ((Ascii
                                        (true, true, false, false, false,
                                        true, true, false)), (String ((Ascii
                                        (false, false, false, true, false,
                                        true, true, false)), (String ((Ascii
                                        (true, false, true, false, false,
                                        true, true, false)), (String ((Ascii
                                        (true, true, false, false, false,
                                        true, true, false)), (String ((Ascii
                                        (true, true, false, true, false,
                                        true, true, false)),
                                        EmptyString))))))))))))))))))))))
                        | _ ->
                          sx_err (String ((Ascii (true, true, false, false,
                            false, true, true, false)), (String ((Ascii
                            (true, false, false, false, true, true, false,
                            false)), (String ((Ascii (true, false, false,
                            true, true, true, false, false)), (String ((Ascii
                            (false, true, true, true, false, true, false,
                            false)), (String ((Ascii (true, true, false,
                            false, false, true, true, false)), (String
                            ((Ascii (false, false, false, true, false, true,
                            true, false)), (String ((Ascii (true, false,
                            true, false, false, true, true, false)), (String
                            ((Ascii (true, true, false, false, false, true,
                            true, false)), (String ((Ascii (true, true,
                            false, true, false, true, true, false)),
                            EmptyString))))))))))))))))))))
                  | _ ->
                    sx_err (String ((Ascii (true, true, false, false, false,
                      true, true, false)), (String ((Ascii (true, false,
                      false, false, true, true, false, false)), (String
                      ((Ascii (true, false, false, true, true, true, false,
                      false)), (String ((Ascii (false, true, true, true,
                      false, true, false, false)), (String ((Ascii (true,
                      true, false, false, false, true, true, false)), (String
                      ((Ascii (false, false, false, true, false, true, true,
                      false)), (String ((Ascii (true, false, true, false,
                      false, true, true, false)), (String ((Ascii (true,
                      true, false, false, false, true, true, false)), (String
                      ((Ascii (true, true, false, true, false, true, true,
                      false)), EmptyString))))))))))))))))))))
            | _ ->
              sx_err (String ((Ascii (true, true, false, false, false, true,
                true, false)), (String ((Ascii (true, false, false, false,
                true, true, false, false)), (String ((Ascii (true, false,
                false, true, true, true, false, false)), (String ((Ascii
                (false, true, true, true, false, true, false, false)),
                (String ((Ascii (true, true, false, false, false, true, true,
                false)), (String ((Ascii (false, false, false, true, false,
                true, true, false)), (String ((Ascii (true, false, true,
                false, false, true, true, false)), (String ((Ascii (true,
                true, false, false, false, true, true, false)), (String
                ((Ascii (true, true, false, true, false, true, true, false)),
                EmptyString))))))))))))))))))))
      | _ ->
        sx_err (String ((Ascii (true, true, false, false, false, true, true,
          false)), (String ((Ascii (true, false, false, false, true, true,
          false, false)), (String ((Ascii (true, false, false, true, true,
          true, false, false)), (String ((Ascii (false, true, true, true,
          false, true, false, false)), (String ((Ascii (true, true, false,
          false, false, true, true, false)), (String ((Ascii (false, false,
          false, true, false, true, true, false)), (String ((Ascii (true,
          false, true, false, false, true, true, false)), (String ((Ascii
          (true, true, false, false, false, true, true, false)), (String
          ((Ascii (true, true, false, true, false, true, true, false)),
          EmptyString))))))))))))))))))))
| _ ->
  sx_err (String ((Ascii (true, true, false, false, false, true, true,
    false)), (String ((Ascii (true, false, false, false, true, true, false,
    false)), (String ((Ascii (true, false, false, true, true, true, false,
    false)), (String ((Ascii (false, true, true, true, false, true, false,
    false)), (String ((Ascii (true, true, false, false, false, true, true,
    false)), (String ((Ascii (false, false, false, true, false, true, true,
    false)), (String ((Ascii (true, false, true, false, false, true, true,
    false)), (String ((Ascii (true, true, false, false, false, true, true,
    false)), (String ((Ascii (true, true, false, true, false, true, true,
    false)), EmptyString))))))))))))))))))

(** val nominal_now : z **)

let nominal_now =
  Zpos (XO (XO (XO (XO (XO (XO (XO (XO (XI (XO (XI (XO (XO (XI (XI (XO (XI
    (XI (XI (XO (XI (XI (XI (XI (XI (XI (XO (XO (XI (XO (XI (XO (XO (XI (XI
    (XI (XI (XI (XI (XI (XO (XO (XI (XI (XI (XO (XO (XI (XI (XI (XI (XO (XI
    (XO (XO (XI (XI (XI (XI (XO
    XH))))))))))))))))))))))))))))))))))))))))))))))))))))))))))))

(** val run_clock : sx -> sx **)

let run_clock = function
| SL l ->
  (match l with
   | [] ->
     sx_err (String ((Ascii (true, true, false, false, false, true, true,
       false)), (String ((Ascii (true, false, false, false, true, true,
       false, false)), (String ((Ascii (true, false, false, true, true, true,
       false, false)), (String ((Ascii (false, true, true, true, false, true,
       false, false)), (String ((Ascii (true, true, false, false, false,
       true, true, false)), (String ((Ascii (false, false, true, true, false,
       true, true, false)), (String ((Ascii (true, true, true, true, false,
       true, true, false)), (String ((Ascii (true, true, false, false, false,
       true, true, false)), (String ((Ascii (true, true, false, true, false,
       true, true, false)), EmptyString))))))))))))))))))
   | s :: l0 ->
     (match s with
      | SZ ltp ->
        (match l0 with
         | [] ->
           sx_err (String ((Ascii (true, true, false, false, false, true,
             true, false)), (String ((Ascii (true, false, false, false, true,
             true, false, false)), (String ((Ascii (true, false, false, true,
             true, true, false, false)), (String ((Ascii (false, true, true,
             true, false, true, false, false)), (String ((Ascii (true, true,
             false, false, false, true, true, false)), (String ((Ascii
             (false, false, true, true, false, true, true, false)), (String
             ((Ascii (true, true, true, true, false, true, true, false)),
             (String ((Ascii (true, true, false, false, false, true, true,
             false)), (String ((Ascii (true, true, false, true, false, true,
             true, false)), EmptyString))))))))))))))))))
         | s0 :: l1 ->
           (match s0 with
            | SZ ltpl ->
              (match l1 with
               | [] ->
                 sx_err (String ((Ascii (true, true, false, false, false,
                   true, true, false)), (String ((Ascii (true, false, false,
                   false, true, true, false, false)), (String ((Ascii (true,
                   false, false, true, true, true, false, false)), (String
                   ((Ascii (false, true, true, true, false, true, false,
                   false)), (String ((Ascii (true, true, false, false, false,
                   true, true, false)), (String ((Ascii (false, false, true,
                   true, false, true, true, false)), (String ((Ascii (true,
                   true, true, true, false, true, true, false)), (String
                   ((Ascii (true, true, false, false, false, true, true,
                   false)), (String ((Ascii (true, true, false, true, false,
                   true, true, false)), EmptyString))))))))))))))))))
               | s1 :: l2 ->
                 (match s1 with
                  | SZ dproof ->
                    (match l2 with
                     | [] ->
                       sx_err (String ((Ascii (true, true, false, false,
                         false, true, true, false)), (String ((Ascii (true,
                         false, false, false, true, true, false, false)),
                         (String ((Ascii (true, false, false, true, true,
                         true, false, false)), (String ((Ascii (false, true,
                         true, true, false, true, false, false)), (String
                         ((Ascii (true, true, false, false, false, true,
                         true, false)), (String ((Ascii (false, false, true,
                         true, false, true, true, false)), (String ((Ascii
                         (true, true, true, true, false, true, true, false)),
                         (String ((Ascii (true, true, false, false, false,
                         true, true, false)), (String ((Ascii (true, true,
                         false, true, false, true, true, false)),
                         EmptyString))))))))))))))))))
                     | s2 :: l3 ->
                       (match s2 with
                        | SZ dpayload ->
                          (match l3 with
                           | [] ->
                             sx_err (String ((Ascii (true, true, false,
                               false, false, true, true, false)), (String
                               ((Ascii (true, false, false, false, true,
                               true, false, false)), (String ((Ascii (true,
                               false, false, true, true, true, false,
                               false)), (String ((Ascii (false, true, true,
                               true, false, true, false, false)), (String
                               ((Ascii (true, true, false, false, false,
                               true, true, false)), (String ((Ascii (false,
                               false, true, true, false, true, true, false)),
                               (String ((Ascii (true, true, true, true,
                               false, true, true, false)), (String ((Ascii
                               (true, true, false, false, false, true, true,
                               false)), (String ((Ascii (true, true, false,
                               true, false, true, true, false)),
                               EmptyString))))))))))))))))))
                           | s3 :: l4 ->
                             (match s3 with
                              | SB usegen ->
                                (match l4 with
                                 | [] ->
                                   let hm = fun _ m ->
                                     firstn (S (S (S (S (S (S (S (S (S (S (S
                                       (S (S (S (S (S (S (S (S (S (S (S (S (S
                                       (S (S (S (S (S (S (S (S
                                       O))))))))))))))))))))))))))))))))
                                       (app m (app m m))
                                   in
                                   let secret = (Npos XH) :: [] in
                                   let lp =
                                     lifetime_or_default ltpl
                                       defaultLifeTimePayload
                                   in
                                   let now_s = Z.div nominal_now giga in
                                   let payload =
                                     if usegen
                                     then generate_payload hm secret
                                            (repeat (Npos (XI (XI XH))) (S (S
                                              (S (S (S (S (S (S O))))))))) lp
                                            nominal_now
                                     else generate_payload hm secret
                                            (repeat (Npos (XI (XI XH))) (S (S
                                              (S (S (S (S (S (S O))))))))) Z0
                                            (Z.mul (Z.add now_s dpayload)
                                              giga)
                                   in
                                   let key =
                                     repeat (Npos (XI (XO (XO XH)))) (S (S (S
                                       (S (S (S (S (S (S (S (S (S (S (S (S (S
                                       (S (S (S (S (S (S (S (S (S (S (S (S (S
                                       (S (S (S
                                       O))))))))))))))))))))))))))))))))
                                   in
                                   let tp = { p_address =
                                     (to_raw Z0
                                       (repeat (Npos (XI (XO XH))) (S (S (S
                                         (S (S (S (S (S (S (S (S (S (S (S (S
                                         (S (S (S (S (S (S (S (S (S (S (S (S
                                         (S (S (S (S (S
                                         O))))))))))))))))))))))))))))))))));
                                     p_ts = (Z.add now_s dproof); p_domain =
                                     ((Npos (XO (XO (XI (XO (XO (XI
                                     XH))))))) :: []); p_signature = [];
                                     p_payload = payload; p_state_init = [] }
                                   in
                                   let r =
                                     check_proof (fun x -> x) (fun _ _ _ ->
                                       true) (fun _ -> Some []) (fun _ -> Err
                                       eOther) (fun _ -> false) (fun _ ->
                                       false) [] (fun _ -> ExRet (N0, ((StInt
                                       (be_val key)) :: [])))
                                       (check_payload hm secret lp
                                         nominal_now)
                                       (static_domain ((Npos (XO (XO (XI (XO
                                         (XO (XI XH))))))) :: []))
                                       (lifetime_or_default ltp
                                         defaultLifeTimeProof) nominal_now tp
                                   in
                                   out_res (fun _ -> SB true) r
                                 | _ :: _ ->
                                   sx_err (String ((Ascii (true, true, false,
                                     false, false, true, true, false)),
                                     (String ((Ascii (true, false, false,
                                     false, true, true, false, false)),
                                     (String ((Ascii (true, false, false,
                                     true, true, true, false, false)),
                                     (String ((Ascii (false, true, true,
                                     true, false, true, false, false)),
                                     (String ((Ascii (true, true, false,
                                     false, false, true, true, false)),
                                     (String ((Ascii (false, false, true,
                                     true, false, true, true, false)),
                                     (String ((Ascii (true, true, true, true,
                                     false, true, true, false)), (String
                                     ((Ascii (true, true, false, false,
                                     false, true, true, false)), (String
                                     ((Ascii (true, true, false, true, false,
                                     true, true, false)),
                                     EmptyString)))))))))))))))))))
                              | _ ->
                                sx_err (String ((Ascii (true, true, false,
                                  false, false, true, true, false)), (String
                                  ((Ascii (true, false, false, false, true,
                                  true, false, false)), (String ((Ascii
                                  (true, false, false, true, true, true,
                                  false, false)), (String ((Ascii (false,
                                  true, true, true, false, true, false,
                                  false)), (String ((Ascii (true, true,
                                  false, false, false, true, true, false)),
                                  (String ((Ascii (false, false, true, true,
                                  false, true, true, false)), (String ((Ascii
                                  (true, true, true, true, false, true, true,
                                  false)), (String ((Ascii (true, true,
                                  false, false, false, true, true, false)),
                                  (String ((Ascii (true, true, false, true,
                                  false, true, true, false)),
                                  EmptyString))))))))))))))))))))
                        | _ ->
                          sx_err (String ((Ascii (true, true, false, false,
                            false, true, true, false)), (String ((Ascii
                            (true, false, false, false, true, true, false,
                            false)), (String ((Ascii (true, false, false,
                            true, true, true, false, false)), (String ((Ascii
                            (false, true, true, true, false, true, false,
                            false)), (String ((Ascii (true, true, false,
                            false, false, true, true, false)), (String
                            ((Ascii (false, false, true, true, false, true,
                            true, false)), (String ((Ascii (true, true, true,
                            true, false, true, true, false)), (String ((Ascii
                            (true, true, false, false, false, true, true,
                            false)), (String ((Ascii (true, true, false,
                            true, false, true, true, false)),
                            EmptyString))))))))))))))))))))
                  | _ ->
                    sx_err (String ((Ascii (true, true, false, false, false,
                      true, true, false)), (String ((Ascii (true, false,
                      false, false, true, true, false, false)), (String
                      ((Ascii (true, false, false, true, true, true, false,
                      false)), (String ((Ascii (false, true, true, true,
                      false, true, false, false)), (String ((Ascii (true,
                      true, false, false, false, true, true, false)), (String
                      ((Ascii (false, false, true, true, false, true, true,
                      false)), (String ((Ascii (true, true, true, true,
                      false, true, true, false)), (String ((Ascii (true,
                      true, false, false, false, true, true, false)), (String
                      ((Ascii (true, true, false, true, false, true, true,
                      false)), EmptyString))))))))))))))))))))
            | _ ->
              sx_err (String ((Ascii (true, true, false, false, false, true,
                true, false)), (String ((Ascii (true, false, false, false,
                true, true, false, false)), (String ((Ascii (true, false,
                false, true, true, true, false, false)), (String ((Ascii
                (false, true, true, true, false, true, false, false)),
                (String ((Ascii (true, true, false, false, false, true, true,
                false)), (String ((Ascii (false, false, true, true, false,
                true, true, false)), (String ((Ascii (true, true, true, true,
                false, true, true, false)), (String ((Ascii (true, true,
                false, false, false, true, true, false)), (String ((Ascii
                (true, true, false, true, false, true, true, false)),
                EmptyString))))))))))))))))))))
      | _ ->
        sx_err (String ((Ascii (true, true, false, false, false, true, true,
          false)), (String ((Ascii (true, false, false, false, true, true,
          false, false)), (String ((Ascii (true, false, false, true, true,
          true, false, false)), (String ((Ascii (false, true, true, true,
          false, true, false, false)), (String ((Ascii (true, true, false,
          false, false, true, true, false)), (String ((Ascii (false, false,
          true, true, false, true, true, false)), (String ((Ascii (true,
          true, true, true, false, true, true, false)), (String ((Ascii
          (true, true, false, false, false, true, true, false)), (String
          ((Ascii (true, true, false, true, false, true, true, false)),
          EmptyString))))))))))))))))))))
| _ ->
  sx_err (String ((Ascii (true, true, false, false, false, true, true,
    false)), (String ((Ascii (true, false, false, false, true, true, false,
    false)), (String ((Ascii (true, false, false, true, true, true, false,
    false)), (String ((Ascii (false, true, true, true, false, true, false,
    false)), (String ((Ascii (true, true, false, false, false, true, true,
    false)), (String ((Ascii (false, false, true, true, false, true, true,
    false)), (String ((Ascii (true, true, true, true, false, true, true,
    false)), (String ((Ascii (true, true, false, false, false, true, true,
    false)), (String ((Ascii (true, true, false, true, false, true, true,
    false)), EmptyString))))))))))))))))))

type result =
| ROk0 of n
| RTimeout0
| RSendErr

type call_pc =
| CInit
| CReg
| CPicked of nat
| CSent
| CLeaving of result
| CReturned of result

type packet =
| PAnswer of n * n
| PMalformed of n
| PPong
| PJunk

type state0 = { pc : (nat -> call_pc); reg : (n * nat) list;
                ch0 : (nat -> n option); next : nat; status : (nat -> bool);
                broken : (nat -> bool); rq : (nat -> nat);
                loops : (nat -> nat); wire : (nat -> packet list);
                emitted : (n * n) list; delivered : (nat * n) list }

(** val set_pc : state0 -> (nat -> call_pc) -> state0 **)

let set_pc s v =
  { pc = v; reg = s.reg; ch0 = s.ch0; next = s.next; status = s.status;
    broken = s.broken; rq = s.rq; loops = s.loops; wire = s.wire; emitted =
    s.emitted; delivered = s.delivered }

(** val set_reg : state0 -> (n * nat) list -> state0 **)

let set_reg s v =
  { pc = s.pc; reg = v; ch0 = s.ch0; next = s.next; status = s.status;
    broken = s.broken; rq = s.rq; loops = s.loops; wire = s.wire; emitted =
    s.emitted; delivered = s.delivered }

(** val set_ch : state0 -> (nat -> n option) -> state0 **)

let set_ch s v =
  { pc = s.pc; reg = s.reg; ch0 = v; next = s.next; status = s.status;
    broken = s.broken; rq = s.rq; loops = s.loops; wire = s.wire; emitted =
    s.emitted; delivered = s.delivered }

(** val set_next : state0 -> nat -> state0 **)

let set_next s v =
  { pc = s.pc; reg = s.reg; ch0 = s.ch0; next = v; status = s.status;
    broken = s.broken; rq = s.rq; loops = s.loops; wire = s.wire; emitted =
    s.emitted; delivered = s.delivered }

(** val set_status : state0 -> (nat -> bool) -> state0 **)

let set_status s v =
  { pc = s.pc; reg = s.reg; ch0 = s.ch0; next = s.next; status = v; broken =
    s.broken; rq = s.rq; loops = s.loops; wire = s.wire; emitted = s.emitted;
    delivered = s.delivered }

(** val set_broken : state0 -> (nat -> bool) -> state0 **)

let set_broken s v =
  { pc = s.pc; reg = s.reg; ch0 = s.ch0; next = s.next; status = s.status;
    broken = v; rq = s.rq; loops = s.loops; wire = s.wire; emitted =
    s.emitted; delivered = s.delivered }

(** val set_rq : state0 -> (nat -> nat) -> state0 **)

let set_rq s v =
  { pc = s.pc; reg = s.reg; ch0 = s.ch0; next = s.next; status = s.status;
    broken = s.broken; rq = v; loops = s.loops; wire = s.wire; emitted =
    s.emitted; delivered = s.delivered }

(** val set_loops : state0 -> (nat -> nat) -> state0 **)

let set_loops s v =
  { pc = s.pc; reg = s.reg; ch0 = s.ch0; next = s.next; status = s.status;
    broken = s.broken; rq = s.rq; loops = v; wire = s.wire; emitted =
    s.emitted; delivered = s.delivered }

(** val set_wire : state0 -> (nat -> packet list) -> state0 **)

let set_wire s v =
  { pc = s.pc; reg = s.reg; ch0 = s.ch0; next = s.next; status = s.status;
    broken = s.broken; rq = s.rq; loops = s.loops; wire = v; emitted =
    s.emitted; delivered = s.delivered }

(** val set_emitted : state0 -> (n * n) list -> state0 **)

let set_emitted s v =
  { pc = s.pc; reg = s.reg; ch0 = s.ch0; next = s.next; status = s.status;
    broken = s.broken; rq = s.rq; loops = s.loops; wire = s.wire; emitted =
    v; delivered = s.delivered }

(** val set_delivered : state0 -> (nat * n) list -> state0 **)

let set_delivered s v =
  { pc = s.pc; reg = s.reg; ch0 = s.ch0; next = s.next; status = s.status;
    broken = s.broken; rq = s.rq; loops = s.loops; wire = s.wire; emitted =
    s.emitted; delivered = v }

(** val cupd : (nat -> 'a1) -> nat -> 'a1 -> nat -> 'a1 **)

let cupd f i v j =
  if Nat.eqb j i then v else f j

(** val lookup0 : n -> (n * nat) list -> nat option **)

let rec lookup0 id = function
| [] -> None
| p :: t -> let (k0, i) = p in if N.eqb k0 id then Some i else lookup0 id t

(** val remove_id : n -> (n * nat) list -> (n * nat) list **)

let remove_id id r =
  filter (fun e -> negb (N.eqb (fst e) id)) r

type label0 =
| LRegister of nat
| LPick of nat
| LSendOk of nat
| LSendFail of nat
| LEmit of nat * packet
| LDeliver of nat
| LRecv0 of nat
| LTimeout of nat
| LUnregister of nat
| LDrop of nat
| LPingFail of nat
| LSilence of nat
| LReconnectEnter of nat
| LReconnectDone of nat

(** val step1 : nat -> (nat -> n) -> state0 -> label0 -> state0 option **)

let step1 nconn ids s = function
| LRegister i ->
  (match s.pc i with
   | CInit ->
     Some
       (set_pc (set_reg s (((ids i), i) :: (remove_id (ids i) s.reg)))
         (cupd s.pc i CReg))
   | _ -> None)
| LPick i ->
  (match s.pc i with
   | CReg ->
     Some
       (set_pc (set_next s (Nat.modulo (S s.next) nconn))
         (cupd s.pc i (CPicked s.next)))
   | _ -> None)
| LSendOk i ->
  (match s.pc i with
   | CPicked k0 ->
     if s.status k0 then Some (set_pc s (cupd s.pc i CSent)) else None
   | _ -> None)
| LSendFail i ->
  (match s.pc i with
   | CPicked k0 ->
     if negb (s.status k0)
     then Some (set_pc s (cupd s.pc i (CLeaving RSendErr)))
     else if s.broken k0
          then Some
                 (set_pc (set_rq s (cupd s.rq k0 (S (s.rq k0))))
                   (cupd s.pc i (CLeaving RSendErr)))
          else None
   | _ -> None)
| LEmit (k0, p) ->
  if (&&) (s.status k0) (negb (s.broken k0))
  then let s1 = set_wire s (cupd s.wire k0 (app (s.wire k0) (p :: []))) in
       (match p with
        | PAnswer (id, d) ->
          Some (set_emitted s1 (app s.emitted ((id, d) :: [])))
        | _ -> Some s1)
  else None
| LDeliver k0 ->
  (match s.wire k0 with
   | [] -> None
   | p :: rest ->
     let s1 = set_wire s (cupd s.wire k0 rest) in
     (match p with
      | PAnswer (id, d) ->
        (match lookup0 id s.reg with
         | Some i ->
           (match s.ch0 i with
            | Some _ -> None
            | None ->
              Some
                (set_delivered
                  (set_ch (set_reg s1 (remove_id id s.reg))
                    (cupd s.ch0 i (Some d))) (app s.delivered ((i, d) :: []))))
         | None -> Some s1)
      | PMalformed id -> Some (set_reg s1 (remove_id id s.reg))
      | _ -> Some s1))
| LRecv0 i ->
  (match s.pc i with
   | CSent ->
     (match s.ch0 i with
      | Some d ->
        Some
          (set_pc (set_ch s (cupd s.ch0 i None))
            (cupd s.pc i (CLeaving (ROk0 d))))
      | None -> None)
   | _ -> None)
| LTimeout i ->
  (match s.pc i with
   | CSent -> Some (set_pc s (cupd s.pc i (CLeaving RTimeout0)))
   | _ -> None)
| LUnregister i ->
  (match s.pc i with
   | CLeaving r ->
     Some
       (set_pc (set_reg s (remove_id (ids i) s.reg))
         (cupd s.pc i (CReturned r)))
   | _ -> None)
| LDrop k0 ->
  if (&&) (s.status k0) (negb (s.broken k0))
  then Some
         (set_wire (set_broken s (cupd s.broken k0 true)) (cupd s.wire k0 []))
  else None
| LPingFail k0 ->
  if (&&) (s.status k0) (s.broken k0)
  then Some (set_rq s (cupd s.rq k0 (S (s.rq k0))))
  else None
| LSilence k0 ->
  if s.status k0 then Some (set_rq s (cupd s.rq k0 (S (s.rq k0)))) else None
| LReconnectEnter k0 ->
  (match s.rq k0 with
   | O -> None
   | S n0 ->
     let s1 = set_rq s (cupd s.rq k0 n0) in
     if s.status k0
     then Some
            (set_wire
              (set_loops
                (set_broken (set_status s1 (cupd s.status k0 false))
                  (cupd s.broken k0 true)) (cupd s.loops k0 (S (s.loops k0))))
              (cupd s.wire k0 []))
     else Some s1)
| LReconnectDone k0 ->
  (match s.loops k0 with
   | O -> None
   | S n0 ->
     Some
       (set_loops
         (set_broken (set_status s (cupd s.status k0 true))
           (cupd s.broken k0 false)) (cupd s.loops k0 n0)))

(** val exec : nat -> (nat -> n) -> state0 -> label0 list -> state0 option **)

let rec exec nconn ids s = function
| [] -> Some s
| l :: t ->
  (match step1 nconn ids s l with
   | Some s' -> exec nconn ids s' t
   | None -> None)

(** val init_state0 : state0 **)

let init_state0 =
  { pc = (fun _ -> CInit); reg = []; ch0 = (fun _ -> None); next = O;
    status = (fun _ -> true); broken = (fun _ -> false); rq = (fun _ -> O);
    loops = (fun _ -> O); wire = (fun _ -> []); emitted = []; delivered = [] }

(** val small0 : n -> nat **)

let small0 n0 =
  N.to_nat
    (N.min n0 (Npos (XO (XO (XO (XO (XO (XO (XO (XO (XO (XO (XO (XO
      XH))))))))))))))

(** val qid : nat -> n **)

let qid i =
  N.add (Npos XH) (N.of_nat i)

(** val unknown_id : n -> n **)

let unknown_id d =
  N.add (Npos (XO (XO (XO (XO (XO (XO (XI (XO (XO (XI (XO (XO (XO (XO (XI (XO
    (XI (XI (XI XH)))))))))))))))))))) d

(** val emission : string -> sx list -> (nat * packet) option **)

let emission nm args =
  let is = fun x -> eqb1 nm x in
  (match args with
   | [] -> None
   | s :: l ->
     (match s with
      | SN k0 ->
        (match l with
         | [] ->
           if is (String ((Ascii (false, true, true, true, false, true, true,
                false)), (String ((Ascii (true, true, true, true, false,
                true, true, false)), (String ((Ascii (false, true, true,
                true, false, true, true, false)), (String ((Ascii (true,
                true, false, false, false, true, true, false)), (String
                ((Ascii (true, false, true, false, false, true, true,
                false)), EmptyString))))))))))
           then Some ((small0 k0), PPong)
           else None
         | s0 :: l0 ->
           (match s0 with
            | SN a ->
              (match l0 with
               | [] ->
                 if is (String ((Ascii (true, false, true, false, true, true,
                      true, false)), (String ((Ascii (false, true, true,
                      true, false, true, true, false)), (String ((Ascii
                      (true, true, false, true, false, true, true, false)),
                      EmptyString))))))
                 then Some ((small0 k0), (PAnswer ((unknown_id a), a)))
                 else if is (String ((Ascii (true, true, false, false, true,
                           true, true, false)), (String ((Ascii (false,
                           false, false, true, false, true, true, false)),
                           (String ((Ascii (true, true, true, true, false,
                           true, true, false)), (String ((Ascii (false, true,
                           false, false, true, true, true, false)), (String
                           ((Ascii (false, false, true, false, true, true,
                           true, false)), EmptyString))))))))))
                      then Some ((small0 k0), PJunk)
                      else if is (String ((Ascii (false, false, false, false,
                                true, true, true, false)), (String ((Ascii
                                (true, true, true, true, false, true, true,
                                false)), (String ((Ascii (false, true, true,
                                true, false, true, true, false)), (String
                                ((Ascii (true, true, true, false, false,
                                true, true, false)), EmptyString))))))))
                           then Some ((small0 k0), PPong)
                           else if is (String ((Ascii (false, true, false,
                                     true, false, true, true, false)),
                                     (String ((Ascii (true, false, true,
                                     false, true, true, true, false)),
                                     (String ((Ascii (false, true, true,
                                     true, false, true, true, false)),
                                     (String ((Ascii (true, true, false,
                                     true, false, true, true, false)),
                                     EmptyString))))))))
                                then Some ((small0 k0), PJunk)
                                else None
               | s1 :: l1 ->
                 (match s1 with
                  | SN d ->
                    (match l1 with
                     | [] ->
                       if is (String ((Ascii (true, false, false, false,
                            false, true, true, false)), (String ((Ascii
                            (false, true, true, true, false, true, true,
                            false)), (String ((Ascii (true, true, false,
                            false, true, true, true, false)),
                            EmptyString))))))
                       then Some ((small0 k0), (PAnswer ((qid (small0 a)),
                              d)))
                       else if is (String ((Ascii (true, false, true, true,
                                 false, true, true, false)), (String ((Ascii
                                 (true, false, false, false, false, true,
                                 true, false)), (String ((Ascii (false,
                                 false, true, true, false, true, true,
                                 false)), EmptyString))))))
                            then Some ((small0 k0), (PMalformed
                                   (qid (small0 a))))
                            else if is (String ((Ascii (true, true, true,
                                      false, true, true, true, false)),
                                      (String ((Ascii (false, true, false,
                                      false, true, true, true, false)),
                                      (String ((Ascii (true, true, true,
                                      true, false, true, true, false)),
                                      (String ((Ascii (false, true, true,
                                      true, false, true, true, false)),
                                      (String ((Ascii (true, true, true,
                                      false, false, true, true, false)),
                                      EmptyString))))))))))
                                 then Some ((small0 k0), PJunk)
                                 else None
                     | _ :: _ -> None)
                  | _ -> None))
            | _ -> None))
      | _ -> None))

(** val out_result : call_pc -> sx **)

let out_result = function
| CInit ->
  SA (String ((Ascii (false, true, true, true, false, true, true, false)),
    (String ((Ascii (true, true, true, true, false, true, true, false)),
    (String ((Ascii (false, false, true, false, true, true, true, false)),
    (String ((Ascii (true, true, false, false, true, true, true, false)),
    (String ((Ascii (false, false, true, false, true, true, true, false)),
    (String ((Ascii (true, false, false, false, false, true, true, false)),
    (String ((Ascii (false, true, false, false, true, true, true, false)),
    (String ((Ascii (false, false, true, false, true, true, true, false)),
    (String ((Ascii (true, false, true, false, false, true, true, false)),
    (String ((Ascii (false, false, true, false, false, true, true, false)),
    EmptyString))))))))))))))))))))
| CReturned r0 ->
  (match r0 with
   | ROk0 d ->
     SL ((SA (String ((Ascii (true, true, true, true, false, true, true,
       false)), (String ((Ascii (true, true, false, true, false, true, true,
       false)), EmptyString))))) :: ((SN d) :: []))
   | RTimeout0 ->
     SA (String ((Ascii (true, false, true, false, false, true, true,
       false)), (String ((Ascii (false, false, false, true, true, true, true,
       false)), (String ((Ascii (false, false, false, false, true, true,
       true, false)), (String ((Ascii (true, false, false, true, false, true,
       true, false)), (String ((Ascii (false, true, false, false, true, true,
       true, false)), (String ((Ascii (true, false, true, false, false, true,
       true, false)), (String ((Ascii (false, false, true, false, false,
       true, true, false)), EmptyString))))))))))))))
   | RSendErr ->
     SA (String ((Ascii (true, false, true, false, false, true, true,
       false)), (String ((Ascii (false, true, false, false, true, true, true,
       false)), (String ((Ascii (false, true, false, false, true, true, true,
       false)), EmptyString)))))))
| _ ->
  sx_err (String ((Ascii (false, true, true, true, false, true, true,
    false)), (String ((Ascii (true, true, true, true, false, true, true,
    false)), (String ((Ascii (false, false, true, false, true, true, true,
    false)), (String ((Ascii (false, false, false, false, false, true, false,
    false)), (String ((Ascii (false, true, false, false, true, true, true,
    false)), (String ((Ascii (true, false, true, false, false, true, true,
    false)), (String ((Ascii (false, false, true, false, true, true, true,
    false)), (String ((Ascii (true, false, true, false, true, true, true,
    false)), (String ((Ascii (false, true, false, false, true, true, true,
    false)), (String ((Ascii (false, true, true, true, false, true, true,
    false)), (String ((Ascii (true, false, true, false, false, true, true,
    false)), (String ((Ascii (false, false, true, false, false, true, true,
    false)), EmptyString))))))))))))))))))))))))

(** val finish_call : nat -> state0 -> nat -> state0 option **)

let finish_call nconn s i =
  match s.pc i with
  | CSent ->
    exec nconn qid s
      ((match s.ch0 i with
        | Some _ -> LRecv0 i
        | None -> LTimeout i) :: ((LUnregister i) :: []))
  | _ -> Some s

(** val finish_all : nat -> nat -> state0 -> nat -> state0 option **)

let rec finish_all nconn n0 s i =
  match n0 with
  | O -> Some s
  | S n' ->
    (match finish_call nconn s i with
     | Some s' -> finish_all nconn n' s' (S i)
     | None -> None)

(** val outcomes : nat -> state0 -> sx **)

let outcomes ncalls s =
  SL (map (fun i -> out_result (s.pc i)) (seq O ncalls))

(** val interp :
    nat -> nat -> sx list -> state0 -> sx list -> (state0 * sx list) option **)

let rec interp nconn ncalls ops s regs =
  match ops with
  | [] -> Some (s, (rev regs))
  | s0 :: t ->
    (match s0 with
     | SL l ->
       (match l with
        | [] -> None
        | s1 :: args ->
          (match s1 with
           | SA nm ->
             let is = fun x -> eqb1 nm x in
             if is (String ((Ascii (true, true, false, false, true, true,
                  true, false)), (String ((Ascii (false, false, true, false,
                  true, true, true, false)), (String ((Ascii (true, false,
                  false, false, false, true, true, false)), (String ((Ascii
                  (false, true, false, false, true, true, true, false)),
                  (String ((Ascii (false, false, true, false, true, true,
                  true, false)), EmptyString))))))))))
             then (match args with
                   | [] -> None
                   | s2 :: l0 ->
                     (match s2 with
                      | SN i ->
                        (match l0 with
                         | [] ->
                           (match exec nconn qid s ((LRegister
                                    (small0 i)) :: ((LPick
                                    (small0 i)) :: ((LSendOk
                                    (small0 i)) :: []))) with
                            | Some s' -> interp nconn ncalls t s' regs
                            | None -> None)
                         | _ :: _ -> None)
                      | _ -> None))
             else if is (String ((Ascii (false, true, true, false, false,
                       true, true, false)), (String ((Ascii (true, false,
                       false, true, false, true, true, false)), (String
                       ((Ascii (false, true, true, true, false, true, true,
                       false)), (String ((Ascii (true, false, false, true,
                       false, true, true, false)), (String ((Ascii (true,
                       true, false, false, true, true, true, false)), (String
                       ((Ascii (false, false, false, true, false, true, true,
                       false)), EmptyString))))))))))))
                  then (match finish_all nconn ncalls s O with
                        | Some s' -> interp nconn ncalls t s' regs
                        | None -> None)
                  else if is (String ((Ascii (false, true, false, false,
                            true, true, true, false)), (String ((Ascii (true,
                            false, true, false, false, true, true, false)),
                            (String ((Ascii (true, true, true, false, false,
                            true, true, false)), EmptyString))))))
                       then interp nconn ncalls t s
                              ((sx_nat (length s.reg)) :: regs)
                       else if is (String ((Ascii (false, false, true, false,
                                 false, true, true, false)), (String ((Ascii
                                 (false, true, false, false, true, true,
                                 true, false)), (String ((Ascii (true, true,
                                 true, true, false, true, true, false)),
                                 (String ((Ascii (false, false, false, false,
                                 true, true, true, false)),
                                 EmptyString))))))))
                            then (match args with
                                  | [] -> None
                                  | s2 :: _ ->
                                    (match s2 with
                                     | SN k0 ->
                                       (match step1 nconn qid s (LDrop
                                                (small0 k0)) with
                                        | Some s' ->
                                          interp nconn ncalls t s' regs
                                        | None -> None)
                                     | _ -> None))
                            else (match emission nm args with
                                  | Some p0 ->
                                    let (k0, p) = p0 in
                                    (match exec nconn qid s ((LEmit (k0,
                                             p)) :: ((LDeliver k0) :: [])) with
                                     | Some s' ->
                                       interp nconn ncalls t s' regs
                                     | None -> None)
                                  | None -> None)
           | _ -> None))
     | _ -> None)

(** val run_script : sx -> sx **)

let run_script = function
| SL l ->
  (match l with
   | [] ->
     sx_err (String ((Ascii (true, true, false, false, true, true, true,
       false)), (String ((Ascii (true, true, false, false, false, true, true,
       false)), (String ((Ascii (false, true, false, false, true, true, true,
       false)), (String ((Ascii (true, false, false, true, false, true, true,
       false)), (String ((Ascii (false, false, false, false, true, true,
       true, false)), (String ((Ascii (false, false, true, false, true, true,
       true, false)), EmptyString))))))))))))
   | s :: l0 ->
     (match s with
      | SN nc ->
        (match l0 with
         | [] ->
           sx_err (String ((Ascii (true, true, false, false, true, true,
             true, false)), (String ((Ascii (true, true, false, false, false,
             true, true, false)), (String ((Ascii (false, true, false, false,
             true, true, true, false)), (String ((Ascii (true, false, false,
             true, false, true, true, false)), (String ((Ascii (false, false,
             false, false, true, true, true, false)), (String ((Ascii (false,
             false, true, false, true, true, true, false)),
             EmptyString))))))))))))
         | s0 :: l1 ->
           (match s0 with
            | SN n0 ->
              (match l1 with
               | [] ->
                 sx_err (String ((Ascii (true, true, false, false, true,
                   true, true, false)), (String ((Ascii (true, true, false,
                   false, false, true, true, false)), (String ((Ascii (false,
                   true, false, false, true, true, true, false)), (String
                   ((Ascii (true, false, false, true, false, true, true,
                   false)), (String ((Ascii (false, false, false, false,
                   true, true, true, false)), (String ((Ascii (false, false,
                   true, false, true, true, true, false)),
                   EmptyString))))))))))))
               | s1 :: l2 ->
                 (match s1 with
                  | SL ops ->
                    (match l2 with
                     | [] ->
                       let nconn = small0 nc in
                       let ncalls = small0 n0 in
                       (match interp nconn ncalls ops init_state0 [] with
                        | Some p ->
                          let (s2, regs) = p in
                          SL ((outcomes ncalls s2) :: ((SL regs) :: []))
                        | None ->
                          sx_err (String ((Ascii (true, true, false, false,
                            true, true, true, false)), (String ((Ascii (true,
                            true, false, false, false, true, true, false)),
                            (String ((Ascii (false, true, false, false, true,
                            true, true, false)), (String ((Ascii (true,
                            false, false, true, false, true, true, false)),
                            (String ((Ascii (false, false, false, false,
                            true, true, true, false)), (String ((Ascii
                            (false, false, true, false, true, true, true,
                            false)), (String ((Ascii (false, false, false,
                            false, false, true, false, false)), (String
                            ((Ascii (false, true, false, false, false, true,
                            true, false)), (String ((Ascii (false, false,
                            true, true, false, true, true, false)), (String
                            ((Ascii (true, true, true, true, false, true,
                            true, false)), (String ((Ascii (true, true,
                            false, false, false, true, true, false)), (String
                            ((Ascii (true, true, false, true, false, true,
                            true, false)), (String ((Ascii (true, false,
                            true, false, false, true, true, false)), (String
                            ((Ascii (false, false, true, false, false, true,
                            true, false)),
                            EmptyString)))))))))))))))))))))))))))))
                     | _ :: _ ->
                       sx_err (String ((Ascii (true, true, false, false,
                         true, true, true, false)), (String ((Ascii (true,
                         true, false, false, false, true, true, false)),
                         (String ((Ascii (false, true, false, false, true,
                         true, true, false)), (String ((Ascii (true, false,
                         false, true, false, true, true, false)), (String
                         ((Ascii (false, false, false, false, true, true,
                         true, false)), (String ((Ascii (false, false, true,
                         false, true, true, true, false)),
                         EmptyString)))))))))))))
                  | _ ->
                    sx_err (String ((Ascii (true, true, false, false, true,
                      true, true, false)), (String ((Ascii (true, true,
                      false, false, false, true, true, false)), (String
                      ((Ascii (false, true, false, false, true, true, true,
                      false)), (String ((Ascii (true, false, false, true,
                      false, true, true, false)), (String ((Ascii (false,
                      false, false, false, true, true, true, false)), (String
                      ((Ascii (false, false, true, false, true, true, true,
                      false)), EmptyString))))))))))))))
            | _ ->
              sx_err (String ((Ascii (true, true, false, false, true, true,
                true, false)), (String ((Ascii (true, true, false, false,
                false, true, true, false)), (String ((Ascii (false, true,
                false, false, true, true, true, false)), (String ((Ascii
                (true, false, false, true, false, true, true, false)),
                (String ((Ascii (false, false, false, false, true, true,
                true, false)), (String ((Ascii (false, false, true, false,
                true, true, true, false)), EmptyString))))))))))))))
      | _ ->
        sx_err (String ((Ascii (true, true, false, false, true, true, true,
          false)), (String ((Ascii (true, true, false, false, false, true,
          true, false)), (String ((Ascii (false, true, false, false, true,
          true, true, false)), (String ((Ascii (true, false, false, true,
          false, true, true, false)), (String ((Ascii (false, false, false,
          false, true, true, true, false)), (String ((Ascii (false, false,
          true, false, true, true, true, false)), EmptyString))))))))))))))
| _ ->
  sx_err (String ((Ascii (true, true, false, false, true, true, true,
    false)), (String ((Ascii (true, true, false, false, false, true, true,
    false)), (String ((Ascii (false, true, false, false, true, true, true,
    false)), (String ((Ascii (true, false, false, true, false, true, true,
    false)), (String ((Ascii (false, false, false, false, true, true, true,
    false)), (String ((Ascii (false, false, true, false, true, true, true,
    false)), EmptyString))))))))))))

type obs =
| OOk of n
| OExpired
| OErr

(** val parse_obs : sx -> obs option **)

let parse_obs = function
| SA nm ->
  if eqb1 nm (String ((Ascii (true, false, true, false, false, true, true,
       false)), (String ((Ascii (false, false, false, true, true, true, true,
       false)), (String ((Ascii (false, false, false, false, true, true,
       true, false)), (String ((Ascii (true, false, false, true, false, true,
       true, false)), (String ((Ascii (false, true, false, false, true, true,
       true, false)), (String ((Ascii (true, false, true, false, false, true,
       true, false)), (String ((Ascii (false, false, true, false, false,
       true, true, false)), EmptyString))))))))))))))
  then Some OExpired
  else if eqb1 nm (String ((Ascii (true, false, true, false, false, true,
            true, false)), (String ((Ascii (false, true, false, false, true,
            true, true, false)), (String ((Ascii (false, true, false, false,
            true, true, true, false)), EmptyString))))))
       then Some OErr
       else None
| SL l ->
  (match l with
   | [] -> None
   | s :: l0 ->
     (match s with
      | SA nm ->
        (match l0 with
         | [] -> None
         | s0 :: l1 ->
           (match s0 with
            | SN d ->
              (match l1 with
               | [] ->
                 if eqb1 nm (String ((Ascii (true, true, true, true, false,
                      true, true, false)), (String ((Ascii (true, true,
                      false, true, false, true, true, false)), EmptyString))))
                 then Some (OOk d)
                 else None
               | _ :: _ -> None)
            | _ -> None))
      | _ -> None))
| _ -> None

(** val parse_all : (sx -> 'a1 option) -> sx list -> 'a1 list option **)

let rec parse_all f = function
| [] -> Some []
| x :: t ->
  (match f x with
   | Some a ->
     (match parse_all f t with
      | Some r -> Some (a :: r)
      | None -> None)
   | None -> None)

(** val parse_emission : sx -> (nat * packet) option **)

let parse_emission = function
| SL l ->
  (match l with
   | [] -> None
   | s :: args -> (match s with
                   | SA nm -> emission nm args
                   | _ -> None))
| _ -> None

(** val safe_head : state0 -> obs list -> packet -> bool **)

let safe_head s ob = function
| PAnswer (id, d) ->
  (match lookup0 id s.reg with
   | Some i ->
     (match nth_error ob i with
      | Some o -> (match o with
                   | OOk d' -> N.eqb d d'
                   | _ -> false)
      | None -> false)
   | None -> true)
| PMalformed id ->
  (match lookup0 id s.reg with
   | Some i ->
     (match nth_error ob i with
      | Some o -> (match o with
                   | OExpired -> true
                   | _ -> false)
      | None -> false)
   | None -> true)
| _ -> true

(** val find_safe : state0 -> obs list -> nat list -> nat option **)

let rec find_safe s ob = function
| [] -> None
| k0 :: t ->
  (match s.wire k0 with
   | [] -> find_safe s ob t
   | p :: _ -> if safe_head s ob p then Some k0 else find_safe s ob t)

(** val wires_empty : state0 -> nat list -> bool **)

let wires_empty s ks =
  forallb (fun k0 -> match s.wire k0 with
                     | [] -> true
                     | _ :: _ -> false) ks

(** val schedule : nat -> nat -> state0 -> obs list -> state0 option **)

let rec schedule fuel nconn s ob =
  if wires_empty s (seq O nconn)
  then Some s
  else (match fuel with
        | O -> None
        | S f ->
          (match find_safe s ob (seq O nconn) with
           | Some k0 ->
             (match step1 nconn qid s (LDeliver k0) with
              | Some s' -> schedule f nconn s' ob
              | None -> None)
           | None -> None))

(** val start_calls : nat -> label0 list **)

let start_calls n0 =
  flat_map (fun i -> (LRegister i) :: ((LPick i) :: ((LSendOk i) :: [])))
    (seq O n0)

(** val obs_sx : obs -> sx **)

let obs_sx = function
| OOk d ->
  SL ((SA (String ((Ascii (true, true, true, true, false, true, true,
    false)), (String ((Ascii (true, true, false, true, false, true, true,
    false)), EmptyString))))) :: ((SN d) :: []))
| OExpired ->
  SA (String ((Ascii (true, false, true, false, false, true, true, false)),
    (String ((Ascii (false, false, false, true, true, true, true, false)),
    (String ((Ascii (false, false, false, false, true, true, true, false)),
    (String ((Ascii (true, false, false, true, false, true, true, false)),
    (String ((Ascii (false, true, false, false, true, true, true, false)),
    (String ((Ascii (true, false, true, false, false, true, true, false)),
    (String ((Ascii (false, false, true, false, false, true, true, false)),
    EmptyString))))))))))))))
| OErr ->
  SA (String ((Ascii (true, false, true, false, false, true, true, false)),
    (String ((Ascii (false, true, false, false, true, true, true, false)),
    (String ((Ascii (false, true, false, false, true, true, true, false)),
    EmptyString))))))

(** val sx_eqb_outcome : sx -> sx -> bool **)

let sx_eqb_outcome a b =
  match a with
  | SA x -> (match b with
             | SA y -> eqb1 x y
             | _ -> false)
  | SL l ->
    (match l with
     | [] -> false
     | s :: l0 ->
       (match s with
        | SA x ->
          (match l0 with
           | [] -> false
           | s0 :: l1 ->
             (match s0 with
              | SN d ->
                (match l1 with
                 | [] ->
                   (match b with
                    | SL l2 ->
                      (match l2 with
                       | [] -> false
                       | s1 :: l3 ->
                         (match s1 with
                          | SA y ->
                            (match l3 with
                             | [] -> false
                             | s2 :: l4 ->
                               (match s2 with
                                | SN e ->
                                  (match l4 with
                                   | [] -> (&&) (eqb1 x y) (N.eqb d e)
                                   | _ :: _ -> false)
                                | _ -> false))
                          | _ -> false))
                    | _ -> false)
                 | _ :: _ -> false)
              | _ -> false))
        | _ -> false))
  | _ -> false

(** val all2 : ('a1 -> 'a1 -> bool) -> 'a1 list -> 'a1 list -> bool **)

let rec all2 f l1 l2 =
  match l1 with
  | [] -> (match l2 with
           | [] -> true
           | _ :: _ -> false)
  | x :: t1 ->
    (match l2 with
     | [] -> false
     | y :: t2 -> (&&) (f x y) (all2 f t1 t2))

(** val run_race : sx -> sx **)

let run_race = function
| SL l ->
  (match l with
   | [] ->
     sx_err (String ((Ascii (false, true, false, false, true, true, true,
       false)), (String ((Ascii (true, false, false, false, false, true,
       true, false)), (String ((Ascii (true, true, false, false, false, true,
       true, false)), (String ((Ascii (true, false, true, false, false, true,
       true, false)), EmptyString))))))))
   | s :: l0 ->
     (match s with
      | SN nc ->
        (match l0 with
         | [] ->
           sx_err (String ((Ascii (false, true, false, false, true, true,
             true, false)), (String ((Ascii (true, false, false, false,
             false, true, true, false)), (String ((Ascii (true, true, false,
             false, false, true, true, false)), (String ((Ascii (true, false,
             true, false, false, true, true, false)), EmptyString))))))))
         | s0 :: l1 ->
           (match s0 with
            | SN n0 ->
              (match l1 with
               | [] ->
                 sx_err (String ((Ascii (false, true, false, false, true,
                   true, true, false)), (String ((Ascii (true, false, false,
                   false, false, true, true, false)), (String ((Ascii (true,
                   true, false, false, false, true, true, false)), (String
                   ((Ascii (true, false, true, false, false, true, true,
                   false)), EmptyString))))))))
               | s1 :: l2 ->
                 (match s1 with
                  | SL ems ->
                    (match l2 with
                     | [] ->
                       sx_err (String ((Ascii (false, true, false, false,
                         true, true, true, false)), (String ((Ascii (true,
                         false, false, false, false, true, true, false)),
                         (String ((Ascii (true, true, false, false, false,
                         true, true, false)), (String ((Ascii (true, false,
                         true, false, false, true, true, false)),
                         EmptyString))))))))
                     | s2 :: l3 ->
                       (match s2 with
                        | SL outs ->
                          (match l3 with
                           | [] ->
                             let nconn = small0 nc in
                             let ncalls = small0 n0 in
                             (match parse_all parse_emission ems with
                              | Some es ->
                                (match parse_all parse_obs outs with
                                 | Some ob ->
                                   (match exec nconn qid init_state0
                                            (app (start_calls ncalls)
                                              (map (fun e -> LEmit ((fst e),
                                                (snd e))) es)) with
                                    | Some s3 ->
                                      (match schedule (length es) nconn s3 ob with
                                       | Some s4 ->
                                         (match finish_all nconn ncalls s4 O with
                                          | Some s5 ->
                                            if all2 sx_eqb_outcome
                                                 (map (fun i ->
                                                   out_result (s5.pc i))
                                                   (seq O ncalls))
                                                 (map obs_sx ob)
                                            then SL ((SA (String ((Ascii
                                                   (true, false, false,
                                                   false, false, true, true,
                                                   false)), (String ((Ascii
                                                   (true, true, false, false,
                                                   false, true, true,
                                                   false)), (String ((Ascii
                                                   (true, true, false, false,
                                                   false, true, true,
                                                   false)), (String ((Ascii
                                                   (true, false, true, false,
                                                   false, true, true,
                                                   false)), (String ((Ascii
                                                   (false, false, false,
                                                   false, true, true, true,
                                                   false)), (String ((Ascii
                                                   (false, false, true,
                                                   false, true, true, true,
                                                   false)),
                                                   EmptyString))))))))))))) :: (
                                                   (sx_nat (length s5.reg)) :: []))
                                            else SL ((SA (String ((Ascii
                                                   (false, true, false,
                                                   false, true, true, true,
                                                   false)), (String ((Ascii
                                                   (true, false, true, false,
                                                   false, true, true,
                                                   false)), (String ((Ascii
                                                   (false, true, false, true,
                                                   false, true, true,
                                                   false)), (String ((Ascii
                                                   (true, false, true, false,
                                                   false, true, true,
                                                   false)), (String ((Ascii
                                                   (true, true, false, false,
                                                   false, true, true,
                                                   false)), (String ((Ascii
                                                   (false, false, true,
                                                   false, true, true, true,
                                                   false)),
                                                   EmptyString))))))))))))) :: ((SA
                                                   (String ((Ascii (false,
                                                   true, false, false, true,
                                                   true, true, false)),
                                                   (String ((Ascii (true,
                                                   false, true, false, false,
                                                   true, true, false)),
                                                   (String ((Ascii (true,
                                                   true, false, false, true,
                                                   true, true, false)),
                                                   (String ((Ascii (true,
                                                   false, true, false, true,
                                                   true, true, false)),
                                                   (String ((Ascii (false,
                                                   false, true, true, false,
                                                   true, true, false)),
                                                   (String ((Ascii (false,
                                                   false, true, false, true,
                                                   true, true, false)),
                                                   (String ((Ascii (true,
                                                   true, false, false, true,
                                                   true, true, false)),
                                                   EmptyString))))))))))))))) :: []))
                                          | None ->
                                            SL ((SA (String ((Ascii (false,
                                              true, false, false, true, true,
                                              true, false)), (String ((Ascii
                                              (true, false, true, false,
                                              false, true, true, false)),
                                              (String ((Ascii (false, true,
                                              false, true, false, true, true,
                                              false)), (String ((Ascii (true,
                                              false, true, false, false,
                                              true, true, false)), (String
                                              ((Ascii (true, true, false,
                                              false, false, true, true,
                                              false)), (String ((Ascii
                                              (false, false, true, false,
                                              true, true, true, false)),
                                              EmptyString))))))))))))) :: ((SA
                                              (String ((Ascii (false, true,
                                              true, false, false, true, true,
                                              false)), (String ((Ascii (true,
                                              false, false, true, false,
                                              true, true, false)), (String
                                              ((Ascii (false, true, true,
                                              true, false, true, true,
                                              false)), (String ((Ascii (true,
                                              false, false, true, false,
                                              true, true, false)), (String
                                              ((Ascii (true, true, false,
                                              false, true, true, true,
                                              false)), (String ((Ascii
                                              (false, false, false, true,
                                              false, true, true, false)),
                                              EmptyString))))))))))))) :: [])))
                                       | None ->
                                         SL ((SA (String ((Ascii (false,
                                           true, false, false, true, true,
                                           true, false)), (String ((Ascii
                                           (true, false, true, false, false,
                                           true, true, false)), (String
                                           ((Ascii (false, true, false, true,
                                           false, true, true, false)),
                                           (String ((Ascii (true, false,
                                           true, false, false, true, true,
                                           false)), (String ((Ascii (true,
                                           true, false, false, false, true,
                                           true, false)), (String ((Ascii
                                           (false, false, true, false, true,
                                           true, true, false)),
                                           EmptyString))))))))))))) :: ((SA
                                           (String ((Ascii (false, true,
                                           true, true, false, true, true,
                                           false)), (String ((Ascii (true,
                                           true, true, true, false, true,
                                           true, false)), (String ((Ascii
                                           (true, false, true, true, false,
                                           true, false, false)), (String
                                           ((Ascii (true, true, true, true,
                                           false, true, true, false)),
                                           (String ((Ascii (false, true,
                                           false, false, true, true, true,
                                           false)), (String ((Ascii (false,
                                           false, true, false, false, true,
                                           true, false)), (String ((Ascii
                                           (true, false, true, false, false,
                                           true, true, false)), (String
                                           ((Ascii (false, true, false,
                                           false, true, true, true, false)),
                                           (String ((Ascii (true, false,
                                           true, true, false, true, false,
                                           false)), (String ((Ascii (true,
                                           true, true, true, false, true,
                                           true, false)), (String ((Ascii
                                           (false, true, true, false, false,
                                           true, true, false)), (String
                                           ((Ascii (true, false, true, true,
                                           false, true, false, false)),
                                           (String ((Ascii (false, true,
                                           false, false, true, true, true,
                                           false)), (String ((Ascii (true,
                                           false, true, false, false, true,
                                           true, false)), (String ((Ascii
                                           (true, false, false, false, false,
                                           true, true, false)), (String
                                           ((Ascii (false, false, true,
                                           false, false, true, true, false)),
                                           (String ((Ascii (true, false,
                                           true, false, false, true, true,
                                           false)), (String ((Ascii (false,
                                           true, false, false, true, true,
                                           true, false)), (String ((Ascii
                                           (true, false, true, true, false,
                                           true, false, false)), (String
                                           ((Ascii (true, true, false, false,
                                           true, true, true, false)), (String
                                           ((Ascii (false, false, true,
                                           false, true, true, true, false)),
                                           (String ((Ascii (true, false,
                                           true, false, false, true, true,
                                           false)), (String ((Ascii (false,
                                           false, false, false, true, true,
                                           true, false)), (String ((Ascii
                                           (true, true, false, false, true,
                                           true, true, false)), (String
                                           ((Ascii (true, false, true, true,
                                           false, true, false, false)),
                                           (String ((Ascii (true, true, true,
                                           false, false, true, true, false)),
                                           (String ((Ascii (true, false,
                                           false, true, false, true, true,
                                           false)), (String ((Ascii (false,
                                           true, true, false, true, true,
                                           true, false)), (String ((Ascii
                                           (true, false, true, false, false,
                                           true, true, false)), (String
                                           ((Ascii (true, true, false, false,
                                           true, true, true, false)), (String
                                           ((Ascii (true, false, true, true,
                                           false, true, false, false)),
                                           (String ((Ascii (false, false,
                                           true, false, true, true, true,
                                           false)), (String ((Ascii (false,
                                           false, false, true, false, true,
                                           true, false)), (String ((Ascii
                                           (true, false, true, false, false,
                                           true, true, false)), (String
                                           ((Ascii (true, true, false, false,
                                           true, true, true, false)), (String
                                           ((Ascii (true, false, true, false,
                                           false, true, true, false)),
                                           (String ((Ascii (true, false,
                                           true, true, false, true, false,
                                           false)), (String ((Ascii (false,
                                           true, false, false, true, true,
                                           true, false)), (String ((Ascii
                                           (true, false, true, false, false,
                                           true, true, false)), (String
                                           ((Ascii (true, true, false, false,
                                           true, true, true, false)), (String
                                           ((Ascii (true, false, true, false,
                                           true, true, true, false)), (String
                                           ((Ascii (false, false, true, true,
                                           false, true, true, false)),
                                           (String ((Ascii (false, false,
                                           true, false, true, true, true,
                                           false)), (String ((Ascii (true,
                                           true, false, false, true, true,
                                           true, false)),
                                           EmptyString))))))))))))))))))))))))))))))))))))))))))))))))))))))))))))))))))))))))))))))))))))))))) :: [])))
                                    | None ->
                                      SL ((SA (String ((Ascii (false, true,
                                        false, false, true, true, true,
                                        false)), (String ((Ascii (true,
                                        false, true, false, false, true,
                                        true, false)), (String ((Ascii
                                        (false, true, false, true, false,
                                        true, true, false)), (String ((Ascii
                                        (true, false, true, false, false,
                                        true, true, false)), (String ((Ascii
                                        (true, true, false, false, false,
                                        true, true, false)), (String ((Ascii
                                        (false, false, true, false, true,
                                        true, true, false)),
                                        EmptyString))))))))))))) :: ((SA
                                        (String ((Ascii (true, false, true,
                                        false, false, true, true, false)),
                                        (String ((Ascii (true, false, true,
                                        true, false, true, true, false)),
                                        (String ((Ascii (true, false, false,
                                        true, false, true, true, false)),
                                        (String ((Ascii (false, false, true,
                                        false, true, true, true, false)),
                                        EmptyString))))))))) :: [])))
                                 | None ->
                                   sx_err (String ((Ascii (false, true,
                                     false, false, true, true, true, false)),
                                     (String ((Ascii (true, false, false,
                                     false, false, true, true, false)),
                                     (String ((Ascii (true, true, false,
                                     false, false, true, true, false)),
                                     (String ((Ascii (true, false, true,
                                     false, false, true, true, false)),
                                     (String ((Ascii (false, false, false,
                                     false, false, true, false, false)),
                                     (String ((Ascii (true, true, true, true,
                                     false, true, true, false)), (String
                                     ((Ascii (false, false, false, false,
                                     true, true, true, false)), (String
                                     ((Ascii (true, true, false, false, true,
                                     true, true, false)),
                                     EmptyString)))))))))))))))))
                              | None ->
                                sx_err (String ((Ascii (false, true, false,
                                  false, true, true, true, false)), (String
                                  ((Ascii (true, false, false, false, false,
                                  true, true, false)), (String ((Ascii (true,
                                  true, false, false, false, true, true,
                                  false)), (String ((Ascii (true, false,
                                  true, false, false, true, true, false)),
                                  (String ((Ascii (false, false, false,
                                  false, false, true, false, false)), (String
                                  ((Ascii (true, true, true, true, false,
                                  true, true, false)), (String ((Ascii
                                  (false, false, false, false, true, true,
                                  true, false)), (String ((Ascii (true, true,
                                  false, false, true, true, true, false)),
                                  EmptyString)))))))))))))))))
                           | _ :: _ ->
                             sx_err (String ((Ascii (false, true, false,
                               false, true, true, true, false)), (String
                               ((Ascii (true, false, false, false, false,
                               true, true, false)), (String ((Ascii (true,
                               true, false, false, false, true, true,
                               false)), (String ((Ascii (true, false, true,
                               false, false, true, true, false)),
                               EmptyString)))))))))
                        | _ ->
                          sx_err (String ((Ascii (false, true, false, false,
                            true, true, true, false)), (String ((Ascii (true,
                            false, false, false, false, true, true, false)),
                            (String ((Ascii (true, true, false, false, false,
                            true, true, false)), (String ((Ascii (true,
                            false, true, false, false, true, true, false)),
                            EmptyString))))))))))
                  | _ ->
                    sx_err (String ((Ascii (false, true, false, false, true,
                      true, true, false)), (String ((Ascii (true, false,
                      false, false, false, true, true, false)), (String
                      ((Ascii (true, true, false, false, false, true, true,
                      false)), (String ((Ascii (true, false, true, false,
                      false, true, true, false)), EmptyString))))))))))
            | _ ->
              sx_err (String ((Ascii (false, true, false, false, true, true,
                true, false)), (String ((Ascii (true, false, false, false,
                false, true, true, false)), (String ((Ascii (true, true,
                false, false, false, true, true, false)), (String ((Ascii
                (true, false, true, false, false, true, true, false)),
                EmptyString))))))))))
      | _ ->
        sx_err (String ((Ascii (false, true, false, false, true, true, true,
          false)), (String ((Ascii (true, false, false, false, false, true,
          true, false)), (String ((Ascii (true, true, false, false, false,
          true, true, false)), (String ((Ascii (true, false, true, false,
          false, true, true, false)), EmptyString))))))))))
| _ ->
  sx_err (String ((Ascii (false, true, false, false, true, true, true,
    false)), (String ((Ascii (true, false, false, false, false, true, true,
    false)), (String ((Ascii (true, true, false, false, false, true, true,
    false)), (String ((Ascii (true, false, true, false, false, true, true,
    false)), EmptyString))))))))

(** val is_picked : call_pc -> nat -> bool **)

let is_picked p k0 =
  match p with
  | CPicked k' -> Nat.eqb k0 k'
  | _ -> false

(** val picked_conn : call_pc -> nat option **)

let picked_conn = function
| CPicked k0 -> Some k0
| _ -> None

(** val event : nat -> state0 -> sx -> state0 option **)

let event nconn s = function
| SL l ->
  (match l with
   | [] -> None
   | s0 :: args ->
     (match s0 with
      | SA nm ->
        let is = fun x -> eqb1 nm x in
        let go = exec nconn qid in
        if is (String ((Ascii (false, true, false, false, true, true, true,
             false)), (String ((Ascii (true, false, true, false, false, true,
             true, false)), (String ((Ascii (true, true, false, false, false,
             true, true, false)), (String ((Ascii (false, true, true, false,
             true, true, true, false)), EmptyString))))))))
        then (match args with
              | [] -> None
              | s1 :: l0 ->
                (match s1 with
                 | SN i ->
                   (match l0 with
                    | [] -> None
                    | s2 :: l1 ->
                      (match s2 with
                       | SN k0 ->
                         (match l1 with
                          | [] ->
                            let i0 = small0 i in
                            (match s.pc i0 with
                             | CInit ->
                               (match go s ((LRegister i0) :: ((LPick
                                        i0) :: [])) with
                                | Some s3 ->
                                  if (&&) (is_picked (s3.pc i0) (small0 k0))
                                       (negb (s3.broken (small0 k0)))
                                  then go s3 ((LSendOk i0) :: [])
                                  else None
                                | None -> None)
                             | _ -> None)
                          | _ :: _ -> None)
                       | _ -> None))
                 | _ -> None))
        else if is (String ((Ascii (false, true, false, false, true, true,
                  true, false)), (String ((Ascii (true, false, true, false,
                  false, true, true, false)), (String ((Ascii (false, false,
                  true, false, true, true, true, false)), EmptyString))))))
             then (match args with
                   | [] -> None
                   | s1 :: l0 ->
                     (match s1 with
                      | SN i ->
                        (match l0 with
                         | [] -> None
                         | o :: l1 ->
                           (match l1 with
                            | [] ->
                              let i0 = small0 i in
                              (match s.pc i0 with
                               | CInit ->
                                 (match parse_obs o with
                                  | Some o0 ->
                                    (match o0 with
                                     | OOk _ -> None
                                     | OExpired ->
                                       (match go s ((LRegister i0) :: ((LPick
                                                i0) :: [])) with
                                        | Some s2 ->
                                          (match picked_conn (s2.pc i0) with
                                           | Some k0 ->
                                             if s2.broken k0
                                             then go s2 ((LSendOk
                                                    i0) :: ((LTimeout
                                                    i0) :: ((LUnregister
                                                    i0) :: [])))
                                             else None
                                           | None -> None)
                                        | None -> None)
                                     | OErr ->
                                       go s ((LRegister i0) :: ((LPick
                                         i0) :: ((LSendFail
                                         i0) :: ((LUnregister i0) :: [])))))
                                  | None -> None)
                               | CSent ->
                                 (match parse_obs o with
                                  | Some o0 ->
                                    (match o0 with
                                     | OOk d ->
                                       (match go s ((LRecv0
                                                i0) :: ((LUnregister
                                                i0) :: [])) with
                                        | Some s2 ->
                                          (match s2.pc i0 with
                                           | CReturned r ->
                                             (match r with
                                              | ROk0 d' ->
                                                if N.eqb d d'
                                                then Some s2
                                                else None
                                              | _ -> None)
                                           | _ -> None)
                                        | None -> None)
                                     | OExpired ->
                                       (match s.ch0 i0 with
                                        | Some _ -> None
                                        | None ->
                                          go s ((LTimeout
                                            i0) :: ((LUnregister i0) :: [])))
                                     | OErr -> None)
                                  | None -> None)
                               | _ -> None)
                            | _ :: _ -> None))
                      | _ -> None))
             else if is (String ((Ascii (false, false, true, false, false,
                       true, true, false)), (String ((Ascii (false, true,
                       false, false, true, true, true, false)), (String
                       ((Ascii (true, true, true, true, false, true, true,
                       false)), (String ((Ascii (false, false, false, false,
                       true, true, true, false)), EmptyString))))))))
                  then (match args with
                        | [] -> None
                        | s1 :: _ ->
                          (match s1 with
                           | SN k0 -> step1 nconn qid s (LDrop (small0 k0))
                           | _ -> None))
                  else if is (String ((Ascii (true, false, true, false, true,
                            true, true, false)), (String ((Ascii (false,
                            false, false, false, true, true, true, false)),
                            EmptyString))))
                       then (match args with
                             | [] -> None
                             | s1 :: l0 ->
                               (match s1 with
                                | SN k0 ->
                                  (match l0 with
                                   | [] ->
                                     go s ((LReconnectEnter
                                       (small0 k0)) :: ((LReconnectDone
                                       (small0 k0)) :: []))
                                   | _ :: _ -> None)
                                | _ -> None))
                       else if is (String ((Ascii (false, true, false, false,
                                 true, true, true, false)), (String ((Ascii
                                 (true, false, true, false, false, true,
                                 true, false)), (String ((Ascii (true, true,
                                 true, false, false, true, true, false)),
                                 EmptyString))))))
                            then (match args with
                                  | [] -> None
                                  | s1 :: l0 ->
                                    (match s1 with
                                     | SN n0 ->
                                       (match l0 with
                                        | [] ->
                                          if N.eqb (N.of_nat (length s.reg))
                                               n0
                                          then Some s
                                          else None
                                        | _ :: _ -> None)
                                     | _ -> None))
                            else (match emission nm args with
                                  | Some p0 ->
                                    let (k0, p) = p0 in
                                    go s ((LEmit (k0, p)) :: ((LDeliver
                                      k0) :: []))
                                  | None -> None)
      | _ -> None))
| _ -> None

(** val events : nat -> state0 -> sx list -> nat -> sx **)

let rec events nconn s es idx =
  match es with
  | [] ->
    SA (String ((Ascii (true, false, false, false, false, true, true,
      false)), (String ((Ascii (true, true, false, false, false, true, true,
      false)), (String ((Ascii (true, true, false, false, false, true, true,
      false)), (String ((Ascii (true, false, true, false, false, true, true,
      false)), (String ((Ascii (false, false, false, false, true, true, true,
      false)), (String ((Ascii (false, false, true, false, true, true, true,
      false)), EmptyString))))))))))))
  | e :: t ->
    (match event nconn s e with
     | Some s' -> events nconn s' t (S idx)
     | None ->
       SL ((SA (String ((Ascii (false, true, false, false, true, true, true,
         false)), (String ((Ascii (true, false, true, false, false, true,
         true, false)), (String ((Ascii (false, true, false, true, false,
         true, true, false)), (String ((Ascii (true, false, true, false,
         false, true, true, false)), (String ((Ascii (true, true, false,
         false, false, true, true, false)), (String ((Ascii (false, false,
         true, false, true, true, true, false)),
         EmptyString))))))))))))) :: ((sx_nat idx) :: [])))

(** val run_seq0 : sx -> sx **)

let run_seq0 = function
| SL l ->
  (match l with
   | [] ->
     sx_err (String ((Ascii (true, true, false, false, true, true, true,
       false)), (String ((Ascii (true, false, true, false, false, true, true,
       false)), (String ((Ascii (true, false, false, false, true, true, true,
       false)), EmptyString))))))
   | s :: l0 ->
     (match s with
      | SN nc ->
        (match l0 with
         | [] ->
           sx_err (String ((Ascii (true, true, false, false, true, true,
             true, false)), (String ((Ascii (true, false, true, false, false,
             true, true, false)), (String ((Ascii (true, false, false, false,
             true, true, true, false)), EmptyString))))))
         | _ :: l1 ->
           (match l1 with
            | [] ->
              sx_err (String ((Ascii (true, true, false, false, true, true,
                true, false)), (String ((Ascii (true, false, true, false,
                false, true, true, false)), (String ((Ascii (true, false,
                false, false, true, true, true, false)), EmptyString))))))
            | s1 :: l2 ->
              (match s1 with
               | SL es ->
                 (match l2 with
                  | [] -> events (small0 nc) init_state0 es O
                  | _ :: _ ->
                    sx_err (String ((Ascii (true, true, false, false, true,
                      true, true, false)), (String ((Ascii (true, false,
                      true, false, false, true, true, false)), (String
                      ((Ascii (true, false, false, false, true, true, true,
                      false)), EmptyString)))))))
               | _ ->
                 sx_err (String ((Ascii (true, true, false, false, true,
                   true, true, false)), (String ((Ascii (true, false, true,
                   false, false, true, true, false)), (String ((Ascii (true,
                   false, false, false, true, true, true, false)),
                   EmptyString)))))))))
      | _ ->
        sx_err (String ((Ascii (true, true, false, false, true, true, true,
          false)), (String ((Ascii (true, false, true, false, false, true,
          true, false)), (String ((Ascii (true, false, false, false, true,
          true, true, false)), EmptyString))))))))
| _ ->
  sx_err (String ((Ascii (true, true, false, false, true, true, true,
    false)), (String ((Ascii (true, false, true, false, false, true, true,
    false)), (String ((Ascii (true, false, false, false, true, true, true,
    false)), EmptyString))))))

(** val run : string -> sx -> sx **)

let run name a =
  let is = fun x -> eqb1 name x in
  if is (String ((Ascii (true, true, false, false, false, true, true,
       false)), (String ((Ascii (false, false, false, false, true, true,
       false, false)), (String ((Ascii (false, true, true, false, true, true,
       false, false)), (String ((Ascii (false, true, true, true, false, true,
       false, false)), (String ((Ascii (true, true, false, false, true, true,
       true, false)), (String ((Ascii (true, false, true, false, false, true,
       true, false)), (String ((Ascii (true, false, false, false, true, true,
       true, false)), EmptyString))))))))))))))
  then run_seq a
  else if is (String ((Ascii (true, true, false, false, false, true, true,
            false)), (String ((Ascii (false, false, false, false, true, true,
            false, false)), (String ((Ascii (false, true, true, false, true,
            true, false, false)), (String ((Ascii (false, true, true, true,
            false, true, false, false)), (String ((Ascii (false, true, true,
            false, false, true, true, false)), (String ((Ascii (false, true,
            false, false, true, true, true, false)), (String ((Ascii (true,
            true, true, true, false, true, true, false)), (String ((Ascii
            (true, false, true, true, false, true, true, false)), (String
            ((Ascii (false, true, true, false, false, true, true, false)),
            (String ((Ascii (true, false, false, true, false, true, true,
            false)), (String ((Ascii (false, true, true, false, false, true,
            true, false)), (String ((Ascii (false, false, true, false, true,
            true, true, false)), EmptyString))))))))))))))))))))))))
       then run_from_fift a
       else if is (String ((Ascii (true, true, false, false, false, true,
                 true, false)), (String ((Ascii (false, false, false, false,
                 true, true, false, false)), (String ((Ascii (false, true,
                 true, false, true, true, false, false)), (String ((Ascii
                 (false, true, true, true, false, true, false, false)),
                 (String ((Ascii (false, false, true, false, true, true,
                 true, false)), (String ((Ascii (true, true, true, true,
                 false, true, true, false)), (String ((Ascii (false, true,
                 true, false, false, true, true, false)), (String ((Ascii
                 (true, false, false, true, false, true, true, false)),
                 (String ((Ascii (false, true, true, false, false, true,
                 true, false)), (String ((Ascii (false, false, true, false,
                 true, true, true, false)), EmptyString))))))))))))))))))))
            then run_to_fift a
            else if is (String ((Ascii (true, true, false, false, false,
                      true, true, false)), (String ((Ascii (false, false,
                      false, false, true, true, false, false)), (String
                      ((Ascii (false, true, true, false, true, true, false,
                      false)), (String ((Ascii (false, true, true, true,
                      false, true, false, false)), (String ((Ascii (true,
                      false, true, true, false, true, true, false)), (String
                      ((Ascii (true, false, false, true, false, true, true,
                      false)), (String ((Ascii (false, true, true, true,
                      false, true, true, false)), (String ((Ascii (false,
                      true, false, false, false, true, true, false)), (String
                      ((Ascii (true, false, false, true, false, true, true,
                      false)), (String ((Ascii (false, false, true, false,
                      true, true, true, false)), (String ((Ascii (true, true,
                      false, false, true, true, true, false)),
                      EmptyString))))))))))))))))))))))
                 then run_minbits a
                 else if is (String ((Ascii (true, true, false, false, false,
                           true, true, false)), (String ((Ascii (false,
                           false, false, false, true, true, false, false)),
                           (String ((Ascii (true, true, true, false, true,
                           true, false, false)), (String ((Ascii (false,
                           true, true, true, false, true, false, false)),
                           (String ((Ascii (false, false, false, false, true,
                           true, true, false)), (String ((Ascii (true, false,
                           false, false, false, true, true, false)), (String
                           ((Ascii (false, true, false, false, true, true,
                           true, false)), (String ((Ascii (true, true, false,
                           false, true, true, true, false)), (String ((Ascii
                           (true, false, true, false, false, true, true,
                           false)), EmptyString))))))))))))))))))
                      then run_parse a
                      else if is (String ((Ascii (true, true, false, false,
                                false, true, true, false)), (String ((Ascii
                                (false, false, false, false, true, true,
                                false, false)), (String ((Ascii (false, true,
                                false, false, true, true, false, false)),
                                (String ((Ascii (false, true, true, true,
                                false, true, false, false)), (String ((Ascii
                                (false, false, false, true, false, true,
                                true, false)), (String ((Ascii (true, false,
                                false, false, false, true, true, false)),
                                (String ((Ascii (true, true, false, false,
                                true, true, true, false)), (String ((Ascii
                                (false, false, false, true, false, true,
                                true, false)), (String ((Ascii (true, false,
                                true, false, false, true, true, false)),
                                (String ((Ascii (true, true, false, false,
                                true, true, true, false)),
                                EmptyString))))))))))))))))))))
                           then run_hashes a
                           else if is (String ((Ascii (true, true, false,
                                     false, false, true, true, false)),
                                     (String ((Ascii (false, false, false,
                                     false, true, true, false, false)),
                                     (String ((Ascii (true, false, false,
                                     false, true, true, false, false)),
                                     (String ((Ascii (false, true, true,
                                     true, false, true, false, false)),
                                     (String ((Ascii (true, true, false,
                                     false, true, true, true, false)),
                                     (String ((Ascii (true, false, true,
                                     false, false, true, true, false)),
                                     (String ((Ascii (false, true, false,
                                     false, true, true, true, false)),
                                     EmptyString))))))))))))))
                                then run_ser a
                                else if is (String ((Ascii (true, true,
                                          false, false, false, true, true,
                                          false)), (String ((Ascii (true,
                                          false, false, false, true, true,
                                          false, false)), (String ((Ascii
                                          (false, false, false, true, true,
                                          true, false, false)), (String
                                          ((Ascii (false, true, true, true,
                                          false, true, false, false)),
                                          (String ((Ascii (false, false,
                                          false, false, true, true, true,
                                          false)), (String ((Ascii (false,
                                          true, false, false, true, true,
                                          true, false)), (String ((Ascii
                                          (true, true, true, true, false,
                                          true, true, false)), (String
                                          ((Ascii (true, true, true, true,
                                          false, true, true, false)), (String
                                          ((Ascii (false, true, true, false,
                                          false, true, true, false)),
                                          EmptyString))))))))))))))))))
                                     then run_proof a
                                     else if is (String ((Ascii (true, true,
                                               false, false, false, true,
                                               true, false)), (String ((Ascii
                                               (true, false, false, false,
                                               true, true, false, false)),
                                               (String ((Ascii (false, false,
                                               false, true, true, true,
                                               false, false)), (String
                                               ((Ascii (false, true, true,
                                               true, false, true, false,
                                               false)), (String ((Ascii
                                               (true, true, false, true,
                                               false, true, true, false)),
                                               (String ((Ascii (true, false,
                                               true, false, false, true,
                                               true, false)), (String ((Ascii
                                               (true, false, false, true,
                                               true, true, true, false)),
                                               EmptyString))))))))))))))
                                          then run_key a
                                          else if is (String ((Ascii (true,
                                                    true, false, false,
                                                    false, true, true,
                                                    false)), (String ((Ascii
                                                    (false, false, false,
                                                    false, true, true, false,
                                                    false)), (String ((Ascii
                                                    (true, false, true,
                                                    false, true, true, false,
                                                    false)), (String ((Ascii
                                                    (false, true, true, true,
                                                    false, true, false,
                                                    false)), (String ((Ascii
                                                    (true, false, true,
                                                    false, false, true, true,
                                                    false)), (String ((Ascii
                                                    (false, true, true, true,
                                                    false, true, true,
                                                    false)), (String ((Ascii
                                                    (true, true, false,
                                                    false, false, true, true,
                                                    false)), (String ((Ascii
                                                    (true, true, true, true,
                                                    false, true, true,
                                                    false)), (String ((Ascii
                                                    (false, false, true,
                                                    false, false, true, true,
                                                    false)), (String ((Ascii
                                                    (true, false, true,
                                                    false, false, true, true,
                                                    false)),
                                                    EmptyString))))))))))))))))))))
                                               then run_encode a
                                               else if is (String ((Ascii
                                                         (true, true, false,
                                                         false, false, true,
                                                         true, false)),
                                                         (String ((Ascii
                                                         (false, false,
                                                         false, false, true,
                                                         true, false,
                                                         false)), (String
                                                         ((Ascii (true,
                                                         false, true, false,
                                                         true, true, false,
                                                         false)), (String
                                                         ((Ascii (false,
                                                         true, true, true,
                                                         false, true, false,
                                                         false)), (String
                                                         ((Ascii (false,
                                                         true, false, false,
                                                         true, true, true,
                                                         false)), (String
                                                         ((Ascii (true,
                                                         false, false, false,
                                                         false, true, true,
                                                         false)), (String
                                                         ((Ascii (true, true,
                                                         true, false, true,
                                                         true, true, false)),
                                                         EmptyString))))))))))))))
                                                    then run_raw a
                                                    else if is (String
                                                              ((Ascii (true,
                                                              true, false,
                                                              false, false,
                                                              true, true,
                                                              false)),
                                                              (String ((Ascii
                                                              (false, false,
                                                              false, false,
                                                              true, true,
                                                              false, false)),
                                                              (String ((Ascii
                                                              (true, false,
                                                              true, false,
                                                              true, true,
                                                              false, false)),
                                                              (String ((Ascii
                                                              (false, true,
                                                              true, true,
                                                              false, true,
                                                              false, false)),
                                                              (String ((Ascii
                                                              (false, false,
                                                              true, false,
                                                              false, true,
                                                              true, false)),
                                                              (String ((Ascii
                                                              (true, false,
                                                              true, false,
                                                              false, true,
                                                              true, false)),
                                                              (String ((Ascii
                                                              (true, true,
                                                              false, false,
                                                              false, true,
                                                              true, false)),
                                                              (String ((Ascii
                                                              (true, true,
                                                              true, true,
                                                              false, true,
                                                              true, false)),
                                                              (String ((Ascii
                                                              (false, false,
                                                              true, false,
                                                              false, true,
                                                              true, false)),
                                                              (String ((Ascii
                                                              (true, false,
                                                              true, false,
                                                              false, true,
                                                              true, false)),
                                                              EmptyString))))))))))))))))))))
                                                         then run_decode a
                                                         else if is (String
                                                                   ((Ascii
                                                                   (true,
                                                                   true,
                                                                   false,
                                                                   false,
                                                                   false,
                                                                   true,
                                                                   true,
                                                                   false)),
                                                                   (String
                                                                   ((Ascii
                                                                   (false,
                                                                   false,
                                                                   false,
                                                                   false,
                                                                   true,
                                                                   true,
                                                                   false,
                                                                   false)),
                                                                   (String
                                                                   ((Ascii
                                                                   (true,
                                                                   false,
                                                                   true,
                                                                   false,
                                                                   true,
                                                                   true,
                                                                   false,
                                                                   false)),
                                                                   (String
                                                                   ((Ascii
                                                                   (false,
                                                                   true,
                                                                   true,
                                                                   true,
                                                                   false,
                                                                   true,
                                                                   false,
                                                                   false)),
                                                                   (String
                                                                   ((Ascii
                                                                   (true,
                                                                   true,
                                                                   false,
                                                                   false,
                                                                   false,
                                                                   true,
                                                                   true,
                                                                   false)),
                                                                   (String
                                                                   ((Ascii
                                                                   (true,
                                                                   false,
                                                                   true,
                                                                   false,
                                                                   false,
                                                                   true,
                                                                   true,
                                                                   false)),
                                                                   (String
                                                                   ((Ascii
                                                                   (false,
                                                                   false,
                                                                   true,
                                                                   true,
                                                                   false,
                                                                   true,
                                                                   true,
                                                                   false)),
                                                                   (String
                                                                   ((Ascii
                                                                   (false,
                                                                   false,
                                                                   true,
                                                                   true,
                                                                   false,
                                                                   true,
                                                                   true,
                                                                   false)),
                                                                   (String
                                                                   ((Ascii
                                                                   (true,
                                                                   true,
                                                                   false,
                                                                   false,
                                                                   true,
                                                                   true,
                                                                   true,
                                                                   false)),
                                                                   EmptyString))))))))))))))))))
                                                              then run_cells a
                                                              else if 
                                                                    is
                                                                    (String
                                                                    ((Ascii
                                                                    (true,
                                                                    true,
                                                                    false,
                                                                    false,
                                                                    false,
                                                                    true,
                                                                    true,
                                                                    false)),
                                                                    (String
                                                                    ((Ascii
                                                                    (false,
                                                                    false,
                                                                    false,
                                                                    false,
                                                                    true,
                                                                    true,
                                                                    false,
                                                                    false)),
                                                                    (String
                                                                    ((Ascii
                                                                    (true,
                                                                    false,
                                                                    true,
                                                                    false,
                                                                    true,
                                                                    true,
                                                                    false,
                                                                    false)),
                                                                    (String
                                                                    ((Ascii
                                                                    (false,
                                                                    true,
                                                                    true,
                                                                    true,
                                                                    false,
                                                                    true,
                                                                    false,
                                                                    false)),
                                                                    (String
                                                                    ((Ascii
                                                                    (true,
                                                                    true,
                                                                    true,
                                                                    true,
                                                                    false,
                                                                    true,
                                                                    true,
                                                                    false)),
                                                                    (String
                                                                    ((Ascii
                                                                    (false,
                                                                    false,
                                                                    false,
                                                                    false,
                                                                    true,
                                                                    true,
                                                                    true,
                                                                    false)),
                                                                    (String
                                                                    ((Ascii
                                                                    (true,
                                                                    true,
                                                                    false,
                                                                    false,
                                                                    true,
                                                                    true,
                                                                    true,
                                                                    false)),
                                                                    EmptyString))))))))))))))
                                                                   then 
                                                                    run_ops0 a
                                                                   else 
                                                                    if 
                                                                    is
                                                                    (String
                                                                    ((Ascii
                                                                    (true,
                                                                    true,
                                                                    false,
                                                                    false,
                                                                    false,
                                                                    true,
                                                                    true,
                                                                    false)),
                                                                    (String
                                                                    ((Ascii
                                                                    (false,
                                                                    false,
                                                                    false,
                                                                    false,
                                                                    true,
                                                                    true,
                                                                    false,
                                                                    false)),
                                                                    (String
                                                                    ((Ascii
                                                                    (true,
                                                                    false,
                                                                    true,
                                                                    false,
                                                                    true,
                                                                    true,
                                                                    false,
                                                                    false)),
                                                                    (String
                                                                    ((Ascii
                                                                    (false,
                                                                    true,
                                                                    true,
                                                                    true,
                                                                    false,
                                                                    true,
                                                                    false,
                                                                    false)),
                                                                    (String
                                                                    ((Ascii
                                                                    (true,
                                                                    false,
                                                                    false,
                                                                    false,
                                                                    false,
                                                                    true,
                                                                    true,
                                                                    false)),
                                                                    (String
                                                                    ((Ascii
                                                                    (false,
                                                                    false,
                                                                    true,
                                                                    false,
                                                                    false,
                                                                    true,
                                                                    true,
                                                                    false)),
                                                                    (String
                                                                    ((Ascii
                                                                    (false,
                                                                    false,
                                                                    true,
                                                                    false,
                                                                    false,
                                                                    true,
                                                                    true,
                                                                    false)),
                                                                    (String
                                                                    ((Ascii
                                                                    (false,
                                                                    true,
                                                                    false,
                                                                    false,
                                                                    true,
                                                                    true,
                                                                    true,
                                                                    false)),
                                                                    EmptyString))))))))))))))))
                                                                    then 
                                                                    run_addr a
                                                                    else 
                                                                    if 
                                                                    is
                                                                    (String
                                                                    ((Ascii
                                                                    (true,
                                                                    true,
                                                                    false,
                                                                    false,
                                                                    false,
                                                                    true,
                                                                    true,
                                                                    false)),
                                                                    (String
                                                                    ((Ascii
                                                                    (true,
                                                                    false,
                                                                    false,
                                                                    false,
                                                                    true,
                                                                    true,
                                                                    false,
                                                                    false)),
                                                                    (String
                                                                    ((Ascii
                                                                    (true,
                                                                    true,
                                                                    false,
                                                                    false,
                                                                    true,
                                                                    true,
                                                                    false,
                                                                    false)),
                                                                    (String
                                                                    ((Ascii
                                                                    (false,
                                                                    true,
                                                                    true,
                                                                    true,
                                                                    false,
                                                                    true,
                                                                    false,
                                                                    false)),
                                                                    (String
                                                                    ((Ascii
                                                                    (true,
                                                                    false,
                                                                    true,
                                                                    false,
                                                                    true,
                                                                    true,
                                                                    true,
                                                                    false)),
                                                                    (String
                                                                    ((Ascii
                                                                    (false,
                                                                    true,
                                                                    false,
                                                                    false,
                                                                    false,
                                                                    true,
                                                                    true,
                                                                    false)),
                                                                    EmptyString))))))))))))
                                                                    then 
                                                                    run_ub a
                                                                    else 
                                                                    if 
                                                                    is
                                                                    (String
                                                                    ((Ascii
                                                                    (true,
                                                                    true,
                                                                    false,
                                                                    false,
                                                                    false,
                                                                    true,
                                                                    true,
                                                                    false)),
                                                                    (String
                                                                    ((Ascii
                                                                    (true,
                                                                    false,
                                                                    false,
                                                                    false,
                                                                    true,
                                                                    true,
                                                                    false,
                                                                    false)),
                                                                    (String
                                                                    ((Ascii
                                                                    (true,
                                                                    true,
                                                                    false,
                                                                    false,
                                                                    true,
                                                                    true,
                                                                    false,
                                                                    false)),
                                                                    (String
                                                                    ((Ascii
                                                                    (false,
                                                                    true,
                                                                    true,
                                                                    true,
                                                                    false,
                                                                    true,
                                                                    false,
                                                                    false)),
                                                                    (String
                                                                    ((Ascii
                                                                    (true,
                                                                    false,
                                                                    true,
                                                                    false,
                                                                    true,
                                                                    true,
                                                                    true,
                                                                    false)),
                                                                    (String
                                                                    ((Ascii
                                                                    (false,
                                                                    true,
                                                                    false,
                                                                    false,
                                                                    false,
                                                                    true,
                                                                    true,
                                                                    false)),
                                                                    (String
                                                                    ((Ascii
                                                                    (false,
                                                                    false,
                                                                    false,
                                                                    true,
                                                                    true,
                                                                    true,
                                                                    true,
                                                                    false)),
                                                                    EmptyString))))))))))))))
                                                                    then 
                                                                    run_ubx a
                                                                    else 
                                                                    if 
                                                                    is
                                                                    (String
                                                                    ((Ascii
                                                                    (true,
                                                                    true,
                                                                    false,
                                                                    false,
                                                                    false,
                                                                    true,
                                                                    true,
                                                                    false)),
                                                                    (String
                                                                    ((Ascii
                                                                    (true,
                                                                    false,
                                                                    false,
                                                                    false,
                                                                    true,
                                                                    true,
                                                                    false,
                                                                    false)),
                                                                    (String
                                                                    ((Ascii
                                                                    (true,
                                                                    true,
                                                                    false,
                                                                    false,
                                                                    true,
                                                                    true,
                                                                    false,
                                                                    false)),
                                                                    (String
                                                                    ((Ascii
                                                                    (false,
                                                                    true,
                                                                    true,
                                                                    true,
                                                                    false,
                                                                    true,
                                                                    false,
                                                                    false)),
                                                                    (String
                                                                    ((Ascii
                                                                    (true,
                                                                    true,
                                                                    true,
                                                                    false,
                                                                    true,
                                                                    true,
                                                                    true,
                                                                    false)),
                                                                    (String
                                                                    ((Ascii
                                                                    (true,
                                                                    false,
                                                                    false,
                                                                    false,
                                                                    false,
                                                                    true,
                                                                    true,
                                                                    false)),
                                                                    (String
                                                                    ((Ascii
                                                                    (false,
                                                                    false,
                                                                    true,
                                                                    true,
                                                                    false,
                                                                    true,
                                                                    true,
                                                                    false)),
                                                                    (String
                                                                    ((Ascii
                                                                    (true,
                                                                    true,
                                                                    false,
                                                                    true,
                                                                    false,
                                                                    true,
                                                                    true,
                                                                    false)),
                                                                    EmptyString))))))))))))))))
                                                                    then 
                                                                    run_walk a
                                                                    else 
                                                                    if 
                                                                    is
                                                                    (String
                                                                    ((Ascii
                                                                    (true,
                                                                    true,
                                                                    false,
                                                                    false,
                                                                    false,
                                                                    true,
                                                                    true,
                                                                    false)),
                                                                    (String
                                                                    ((Ascii
                                                                    (true,
                                                                    false,
                                                                    false,
                                                                    false,
                                                                    true,
                                                                    true,
                                                                    false,
                                                                    false)),
                                                                    (String
                                                                    ((Ascii
                                                                    (true,
                                                                    true,
                                                                    false,
                                                                    false,
                                                                    true,
                                                                    true,
                                                                    false,
                                                                    false)),
                                                                    (String
                                                                    ((Ascii
                                                                    (false,
                                                                    true,
                                                                    true,
                                                                    true,
                                                                    false,
                                                                    true,
                                                                    false,
                                                                    false)),
                                                                    (String
                                                                    ((Ascii
                                                                    (true,
                                                                    true,
                                                                    true,
                                                                    false,
                                                                    true,
                                                                    true,
                                                                    true,
                                                                    false)),
                                                                    (String
                                                                    ((Ascii
                                                                    (true,
                                                                    false,
                                                                    false,
                                                                    false,
                                                                    false,
                                                                    true,
                                                                    true,
                                                                    false)),
                                                                    (String
                                                                    ((Ascii
                                                                    (true,
                                                                    false,
                                                                    false,
                                                                    true,
                                                                    false,
                                                                    true,
                                                                    true,
                                                                    false)),
                                                                    (String
                                                                    ((Ascii
                                                                    (false,
                                                                    false,
                                                                    true,
                                                                    false,
                                                                    true,
                                                                    true,
                                                                    true,
                                                                    false)),
                                                                    EmptyString))))))))))))))))
                                                                    then 
                                                                    run_wait a
                                                                    else 
                                                                    if 
                                                                    is
                                                                    (String
                                                                    ((Ascii
                                                                    (true,
                                                                    true,
                                                                    false,
                                                                    false,
                                                                    false,
                                                                    true,
                                                                    true,
                                                                    false)),
                                                                    (String
                                                                    ((Ascii
                                                                    (true,
                                                                    false,
                                                                    false,
                                                                    false,
                                                                    true,
                                                                    true,
                                                                    false,
                                                                    false)),
                                                                    (String
                                                                    ((Ascii
                                                                    (true,
                                                                    true,
                                                                    false,
                                                                    false,
                                                                    true,
                                                                    true,
                                                                    false,
                                                                    false)),
                                                                    (String
                                                                    ((Ascii
                                                                    (false,
                                                                    true,
                                                                    true,
                                                                    true,
                                                                    false,
                                                                    true,
                                                                    false,
                                                                    false)),
                                                                    (String
                                                                    ((Ascii
                                                                    (false,
                                                                    true,
                                                                    false,
                                                                    false,
                                                                    true,
                                                                    true,
                                                                    true,
                                                                    false)),
                                                                    (String
                                                                    ((Ascii
                                                                    (true,
                                                                    false,
                                                                    true,
                                                                    false,
                                                                    false,
                                                                    true,
                                                                    true,
                                                                    false)),
                                                                    (String
                                                                    ((Ascii
                                                                    (false,
                                                                    false,
                                                                    false,
                                                                    false,
                                                                    true,
                                                                    true,
                                                                    true,
                                                                    false)),
                                                                    (String
                                                                    ((Ascii
                                                                    (false,
                                                                    true,
                                                                    false,
                                                                    false,
                                                                    true,
                                                                    true,
                                                                    true,
                                                                    false)),
                                                                    (String
                                                                    ((Ascii
                                                                    (true,
                                                                    true,
                                                                    true,
                                                                    true,
                                                                    false,
                                                                    true,
                                                                    true,
                                                                    false)),
                                                                    EmptyString))))))))))))))))))
                                                                    then 
                                                                    run_repro
                                                                    a
                                                                    else 
                                                                    if 
                                                                    is
                                                                    (String
                                                                    ((Ascii
                                                                    (true,
                                                                    true,
                                                                    false,
                                                                    false,
                                                                    false,
                                                                    true,
                                                                    true,
                                                                    false)),
                                                                    (String
                                                                    ((Ascii
                                                                    (true,
                                                                    false,
                                                                    false,
                                                                    false,
                                                                    true,
                                                                    true,
                                                                    false,
                                                                    false)),
                                                                    (String
                                                                    ((Ascii
                                                                    (true,
                                                                    false,
                                                                    false,
                                                                    true,
                                                                    true,
                                                                    true,
                                                                    false,
                                                                    false)),
                                                                    (String
                                                                    ((Ascii
                                                                    (false,
                                                                    true,
                                                                    true,
                                                                    true,
                                                                    false,
                                                                    true,
                                                                    false,
                                                                    false)),
                                                                    (String
                                                                    ((Ascii
                                                                    (true,
                                                                    false,
                                                                    true,
                                                                    true,
                                                                    false,
                                                                    true,
                                                                    true,
                                                                    false)),
                                                                    (String
                                                                    ((Ascii
                                                                    (true,
                                                                    true,
                                                                    false,
                                                                    false,
                                                                    true,
                                                                    true,
                                                                    true,
                                                                    false)),
                                                                    (String
                                                                    ((Ascii
                                                                    (true,
                                                                    true,
                                                                    true,
                                                                    false,
                                                                    false,
                                                                    true,
                                                                    true,
                                                                    false)),
                                                                    EmptyString))))))))))))))
                                                                    then 
                                                                    run_msg a
                                                                    else 
                                                                    if 
                                                                    is
                                                                    (String
                                                                    ((Ascii
                                                                    (true,
                                                                    true,
                                                                    false,
                                                                    false,
                                                                    false,
                                                                    true,
                                                                    true,
                                                                    false)),
                                                                    (String
                                                                    ((Ascii
                                                                    (true,
                                                                    false,
                                                                    false,
                                                                    false,
                                                                    true,
                                                                    true,
                                                                    false,
                                                                    false)),
                                                                    (String
                                                                    ((Ascii
                                                                    (true,
                                                                    false,
                                                                    false,
                                                                    true,
                                                                    true,
                                                                    true,
                                                                    false,
                                                                    false)),
                                                                    (String
                                                                    ((Ascii
                                                                    (false,
                                                                    true,
                                                                    true,
                                                                    true,
                                                                    false,
                                                                    true,
                                                                    false,
                                                                    false)),
                                                                    (String
                                                                    ((Ascii
                                                                    (true,
                                                                    true,
                                                                    false,
                                                                    false,
                                                                    false,
                                                                    true,
                                                                    true,
                                                                    false)),
                                                                    (String
                                                                    ((Ascii
                                                                    (true,
                                                                    true,
                                                                    true,
                                                                    true,
                                                                    false,
                                                                    true,
                                                                    true,
                                                                    false)),
                                                                    (String
                                                                    ((Ascii
                                                                    (false,
                                                                    true,
                                                                    true,
                                                                    true,
                                                                    false,
                                                                    true,
                                                                    true,
                                                                    false)),
                                                                    (String
                                                                    ((Ascii
                                                                    (false,
                                                                    true,
                                                                    true,
                                                                    false,
                                                                    true,
                                                                    true,
                                                                    true,
                                                                    false)),
                                                                    EmptyString))))))))))))))))
                                                                    then 
                                                                    run_conv a
                                                                    else 
                                                                    if 
                                                                    is
                                                                    (String
                                                                    ((Ascii
                                                                    (true,
                                                                    true,
                                                                    false,
                                                                    false,
                                                                    false,
                                                                    true,
                                                                    true,
                                                                    false)),
                                                                    (String
                                                                    ((Ascii
                                                                    (true,
                                                                    false,
                                                                    false,
                                                                    false,
                                                                    true,
                                                                    true,
                                                                    false,
                                                                    false)),
                                                                    (String
                                                                    ((Ascii
                                                                    (true,
                                                                    false,
                                                                    false,
                                                                    true,
                                                                    true,
                                                                    true,
                                                                    false,
                                                                    false)),
                                                                    (String
                                                                    ((Ascii
                                                                    (false,
                                                                    true,
                                                                    true,
                                                                    true,
                                                                    false,
                                                                    true,
                                                                    false,
                                                                    false)),
                                                                    (String
                                                                    ((Ascii
                                                                    (false,
                                                                    false,
                                                                    false,
                                                                    false,
                                                                    true,
                                                                    true,
                                                                    true,
                                                                    false)),
                                                                    (String
                                                                    ((Ascii
                                                                    (true,
                                                                    false,
                                                                    false,
                                                                    false,
                                                                    false,
                                                                    true,
                                                                    true,
                                                                    false)),
                                                                    (String
                                                                    ((Ascii
                                                                    (true,
                                                                    false,
                                                                    false,
                                                                    true,
                                                                    true,
                                                                    true,
                                                                    true,
                                                                    false)),
                                                                    (String
                                                                    ((Ascii
                                                                    (false,
                                                                    false,
                                                                    true,
                                                                    true,
                                                                    false,
                                                                    true,
                                                                    true,
                                                                    false)),
                                                                    (String
                                                                    ((Ascii
                                                                    (true,
                                                                    true,
                                                                    true,
                                                                    true,
                                                                    false,
                                                                    true,
                                                                    true,
                                                                    false)),
                                                                    (String
                                                                    ((Ascii
                                                                    (true,
                                                                    false,
                                                                    false,
                                                                    false,
                                                                    false,
                                                                    true,
                                                                    true,
                                                                    false)),
                                                                    (String
                                                                    ((Ascii
                                                                    (false,
                                                                    false,
                                                                    true,
                                                                    false,
                                                                    false,
                                                                    true,
                                                                    true,
                                                                    false)),
                                                                    EmptyString))))))))))))))))))))))
                                                                    then 
                                                                    run_payload
                                                                    a
                                                                    else 
                                                                    if 
                                                                    is
                                                                    (String
                                                                    ((Ascii
                                                                    (true,
                                                                    true,
                                                                    false,
                                                                    false,
                                                                    false,
                                                                    true,
                                                                    true,
                                                                    false)),
                                                                    (String
                                                                    ((Ascii
                                                                    (true,
                                                                    false,
                                                                    false,
                                                                    false,
                                                                    true,
                                                                    true,
                                                                    false,
                                                                    false)),
                                                                    (String
                                                                    ((Ascii
                                                                    (true,
                                                                    false,
                                                                    false,
                                                                    true,
                                                                    true,
                                                                    true,
                                                                    false,
                                                                    false)),
                                                                    (String
                                                                    ((Ascii
                                                                    (false,
                                                                    true,
                                                                    true,
                                                                    true,
                                                                    false,
                                                                    true,
                                                                    false,
                                                                    false)),
                                                                    (String
                                                                    ((Ascii
                                                                    (false,
                                                                    false,
                                                                    false,
                                                                    false,
                                                                    true,
                                                                    true,
                                                                    true,
                                                                    false)),
                                                                    (String
                                                                    ((Ascii
                                                                    (true,
                                                                    false,
                                                                    true,
                                                                    false,
                                                                    true,
                                                                    true,
                                                                    true,
                                                                    false)),
                                                                    (String
                                                                    ((Ascii
                                                                    (false,
                                                                    true,
                                                                    false,
                                                                    false,
                                                                    false,
                                                                    true,
                                                                    true,
                                                                    false)),
                                                                    (String
                                                                    ((Ascii
                                                                    (true,
                                                                    true,
                                                                    false,
                                                                    true,
                                                                    false,
                                                                    true,
                                                                    true,
                                                                    false)),
                                                                    (String
                                                                    ((Ascii
                                                                    (true,
                                                                    false,
                                                                    true,
                                                                    false,
                                                                    false,
                                                                    true,
                                                                    true,
                                                                    false)),
                                                                    (String
                                                                    ((Ascii
                                                                    (true,
                                                                    false,
                                                                    false,
                                                                    true,
                                                                    true,
                                                                    true,
                                                                    true,
                                                                    false)),
                                                                    EmptyString))))))))))))))))))))
                                                                    then 
                                                                    run_pubkey
                                                                    a
                                                                    else 
                                                                    if 
                                                                    is
                                                                    (String
                                                                    ((Ascii
                                                                    (true,
                                                                    true,
                                                                    false,
                                                                    false,
                                                                    false,
                                                                    true,
                                                                    true,
                                                                    false)),
                                                                    (String
                                                                    ((Ascii
                                                                    (true,
                                                                    false,
                                                                    false,
                                                                    false,
                                                                    true,
                                                                    true,
                                                                    false,
                                                                    false)),
                                                                    (String
                                                                    ((Ascii
                                                                    (true,
                                                                    false,
                                                                    false,
                                                                    true,
                                                                    true,
                                                                    true,
                                                                    false,
                                                                    false)),
                                                                    (String
                                                                    ((Ascii
                                                                    (false,
                                                                    true,
                                                                    true,
                                                                    true,
                                                                    false,
                                                                    true,
                                                                    false,
                                                                    false)),
                                                                    (String
                                                                    ((Ascii
                                                                    (true,
                                                                    true,
                                                                    false,
                                                                    false,
                                                                    true,
                                                                    true,
                                                                    true,
                                                                    false)),
                                                                    (String
                                                                    ((Ascii
                                                                    (false,
                                                                    false,
                                                                    true,
                                                                    false,
                                                                    true,
                                                                    true,
                                                                    true,
                                                                    false)),
                                                                    (String
                                                                    ((Ascii
                                                                    (true,
                                                                    false,
                                                                    false,
                                                                    false,
                                                                    false,
                                                                    true,
                                                                    true,
                                                                    false)),
                                                                    (String
                                                                    ((Ascii
                                                                    (false,
                                                                    false,
                                                                    true,
                                                                    false,
                                                                    true,
                                                                    true,
                                                                    true,
                                                                    false)),
                                                                    (String
                                                                    ((Ascii
                                                                    (true,
                                                                    false,
                                                                    true,
                                                                    false,
                                                                    false,
                                                                    true,
                                                                    true,
                                                                    false)),
                                                                    (String
                                                                    ((Ascii
                                                                    (true,
                                                                    false,
                                                                    false,
                                                                    true,
                                                                    false,
                                                                    true,
                                                                    true,
                                                                    false)),
                                                                    (String
                                                                    ((Ascii
                                                                    (false,
                                                                    true,
                                                                    true,
                                                                    true,
                                                                    false,
                                                                    true,
                                                                    true,
                                                                    false)),
                                                                    (String
                                                                    ((Ascii
                                                                    (true,
                                                                    false,
                                                                    false,
                                                                    true,
                                                                    false,
                                                                    true,
                                                                    true,
                                                                    false)),
                                                                    (String
                                                                    ((Ascii
                                                                    (false,
                                                                    false,
                                                                    true,
                                                                    false,
                                                                    true,
                                                                    true,
                                                                    true,
                                                                    false)),
                                                                    EmptyString))))))))))))))))))))))))))
                                                                    then 
                                                                    run_stateinit
                                                                    a
                                                                    else 
                                                                    if 
                                                                    is
                                                                    (String
                                                                    ((Ascii
                                                                    (true,
                                                                    true,
                                                                    false,
                                                                    false,
                                                                    false,
                                                                    true,
                                                                    true,
                                                                    false)),
                                                                    (String
                                                                    ((Ascii
                                                                    (true,
                                                                    false,
                                                                    false,
                                                                    false,
                                                                    true,
                                                                    true,
                                                                    false,
                                                                    false)),
                                                                    (String
                                                                    ((Ascii
                                                                    (true,
                                                                    false,
                                                                    false,
                                                                    true,
                                                                    true,
                                                                    true,
                                                                    false,
                                                                    false)),
                                                                    (String
                                                                    ((Ascii
                                                                    (false,
                                                                    true,
                                                                    true,
                                                                    true,
                                                                    false,
                                                                    true,
                                                                    false,
                                                                    false)),
                                                                    (String
                                                                    ((Ascii
                                                                    (true,
                                                                    true,
                                                                    false,
                                                                    false,
                                                                    false,
                                                                    true,
                                                                    true,
                                                                    false)),
                                                                    (String
                                                                    ((Ascii
                                                                    (false,
                                                                    false,
                                                                    false,
                                                                    true,
                                                                    false,
                                                                    true,
                                                                    true,
                                                                    false)),
                                                                    (String
                                                                    ((Ascii
                                                                    (true,
                                                                    false,
                                                                    true,
                                                                    false,
                                                                    false,
                                                                    true,
                                                                    true,
                                                                    false)),
                                                                    (String
                                                                    ((Ascii
                                                                    (true,
                                                                    true,
                                                                    false,
                                                                    false,
                                                                    false,
                                                                    true,
                                                                    true,
                                                                    false)),
                                                                    (String
                                                                    ((Ascii
                                                                    (true,
                                                                    true,
                                                                    false,
                                                                    true,
                                                                    false,
                                                                    true,
                                                                    true,
                                                                    false)),
                                                                    EmptyString))))))))))))))))))
                                                                    then 
                                                                    run_check
                                                                    a
                                                                    else 
                                                                    if 
                                                                    is
                                                                    (String
                                                                    ((Ascii
                                                                    (true,
                                                                    true,
                                                                    false,
                                                                    false,
                                                                    false,
                                                                    true,
                                                                    true,
                                                                    false)),
                                                                    (String
                                                                    ((Ascii
                                                                    (true,
                                                                    false,
                                                                    false,
                                                                    false,
                                                                    true,
                                                                    true,
                                                                    false,
                                                                    false)),
                                                                    (String
                                                                    ((Ascii
                                                                    (true,
                                                                    false,
                                                                    false,
                                                                    true,
                                                                    true,
                                                                    true,
                                                                    false,
                                                                    false)),
                                                                    (String
                                                                    ((Ascii
                                                                    (false,
                                                                    true,
                                                                    true,
                                                                    true,
                                                                    false,
                                                                    true,
                                                                    false,
                                                                    false)),
                                                                    (String
                                                                    ((Ascii
                                                                    (true,
                                                                    true,
                                                                    false,
                                                                    false,
                                                                    false,
                                                                    true,
                                                                    true,
                                                                    false)),
                                                                    (String
                                                                    ((Ascii
                                                                    (false,
                                                                    false,
                                                                    true,
                                                                    true,
                                                                    false,
                                                                    true,
                                                                    true,
                                                                    false)),
                                                                    (String
                                                                    ((Ascii
                                                                    (true,
                                                                    true,
                                                                    true,
                                                                    true,
                                                                    false,
                                                                    true,
                                                                    true,
                                                                    false)),
                                                                    (String
                                                                    ((Ascii
                                                                    (true,
                                                                    true,
                                                                    false,
                                                                    false,
                                                                    false,
                                                                    true,
                                                                    true,
                                                                    false)),
                                                                    (String
                                                                    ((Ascii
                                                                    (true,
                                                                    true,
                                                                    false,
                                                                    true,
                                                                    false,
                                                                    true,
                                                                    true,
                                                                    false)),
                                                                    EmptyString))))))))))))))))))
                                                                    then 
                                                                    run_clock
                                                                    a
                                                                    else 
                                                                    if 
                                                                    is
                                                                    (String
                                                                    ((Ascii
                                                                    (true,
                                                                    true,
                                                                    false,
                                                                    false,
                                                                    false,
                                                                    true,
                                                                    true,
                                                                    false)),
                                                                    (String
                                                                    ((Ascii
                                                                    (true,
                                                                    false,
                                                                    false,
                                                                    false,
                                                                    true,
                                                                    true,
                                                                    false,
                                                                    false)),
                                                                    (String
                                                                    ((Ascii
                                                                    (false,
                                                                    true,
                                                                    false,
                                                                    false,
                                                                    true,
                                                                    true,
                                                                    false,
                                                                    false)),
                                                                    (String
                                                                    ((Ascii
                                                                    (false,
                                                                    true,
                                                                    true,
                                                                    true,
                                                                    false,
                                                                    true,
                                                                    false,
                                                                    false)),
                                                                    (String
                                                                    ((Ascii
                                                                    (true,
                                                                    true,
                                                                    false,
                                                                    false,
                                                                    true,
                                                                    true,
                                                                    true,
                                                                    false)),
                                                                    (String
                                                                    ((Ascii
                                                                    (true,
                                                                    true,
                                                                    false,
                                                                    false,
                                                                    false,
                                                                    true,
                                                                    true,
                                                                    false)),
                                                                    (String
                                                                    ((Ascii
                                                                    (false,
                                                                    true,
                                                                    false,
                                                                    false,
                                                                    true,
                                                                    true,
                                                                    true,
                                                                    false)),
                                                                    (String
                                                                    ((Ascii
                                                                    (true,
                                                                    false,
                                                                    false,
                                                                    true,
                                                                    false,
                                                                    true,
                                                                    true,
                                                                    false)),
                                                                    (String
                                                                    ((Ascii
                                                                    (false,
                                                                    false,
                                                                    false,
                                                                    false,
                                                                    true,
                                                                    true,
                                                                    true,
                                                                    false)),
                                                                    (String
                                                                    ((Ascii
                                                                    (false,
                                                                    false,
                                                                    true,
                                                                    false,
                                                                    true,
                                                                    true,
                                                                    true,
                                                                    false)),
                                                                    EmptyString))))))))))))))))))))
                                                                    then 
                                                                    run_script
                                                                    a
                                                                    else 
                                                                    if 
                                                                    is
                                                                    (String
                                                                    ((Ascii
                                                                    (true,
                                                                    true,
                                                                    false,
                                                                    false,
                                                                    false,
                                                                    true,
                                                                    true,
                                                                    false)),
                                                                    (String
                                                                    ((Ascii
                                                                    (true,
                                                                    false,
                                                                    false,
                                                                    false,
                                                                    true,
                                                                    true,
                                                                    false,
                                                                    false)),
                                                                    (String
                                                                    ((Ascii
                                                                    (false,
                                                                    true,
                                                                    false,
                                                                    false,
                                                                    true,
                                                                    true,
                                                                    false,
                                                                    false)),
                                                                    (String
                                                                    ((Ascii
                                                                    (false,
                                                                    true,
                                                                    true,
                                                                    true,
                                                                    false,
                                                                    true,
                                                                    false,
                                                                    false)),
                                                                    (String
                                                                    ((Ascii
                                                                    (false,
                                                                    true,
                                                                    false,
                                                                    false,
                                                                    true,
                                                                    true,
                                                                    true,
                                                                    false)),
                                                                    (String
                                                                    ((Ascii
                                                                    (true,
                                                                    false,
                                                                    false,
                                                                    false,
                                                                    false,
                                                                    true,
                                                                    true,
                                                                    false)),
                                                                    (String
                                                                    ((Ascii
                                                                    (true,
                                                                    true,
                                                                    false,
                                                                    false,
                                                                    false,
                                                                    true,
                                                                    true,
                                                                    false)),
                                                                    (String
                                                                    ((Ascii
                                                                    (true,
                                                                    false,
                                                                    true,
                                                                    false,
                                                                    false,
                                                                    true,
                                                                    true,
                                                                    false)),
                                                                    EmptyString))))))))))))))))
                                                                    then 
                                                                    run_race a
                                                                    else 
                                                                    if 
                                                                    is
                                                                    (String
                                                                    ((Ascii
                                                                    (true,
                                                                    true,
                                                                    false,
                                                                    false,
                                                                    false,
                                                                    true,
                                                                    true,
                                                                    false)),
                                                                    (String
                                                                    ((Ascii
                                                                    (true,
                                                                    false,
                                                                    false,
                                                                    false,
                                                                    true,
                                                                    true,
                                                                    false,
                                                                    false)),
                                                                    (String
                                                                    ((Ascii
                                                                    (false,
                                                                    true,
                                                                    false,
                                                                    false,
                                                                    true,
                                                                    true,
                                                                    false,
                                                                    false)),
                                                                    (String
                                                                    ((Ascii
                                                                    (false,
                                                                    true,
                                                                    true,
                                                                    true,
                                                                    false,
                                                                    true,
                                                                    false,
                                                                    false)),
                                                                    (String
                                                                    ((Ascii
                                                                    (true,
                                                                    true,
                                                                    false,
                                                                    false,
                                                                    true,
                                                                    true,
                                                                    true,
                                                                    false)),
                                                                    (String
                                                                    ((Ascii
                                                                    (true,
                                                                    false,
                                                                    true,
                                                                    false,
                                                                    false,
                                                                    true,
                                                                    true,
                                                                    false)),
                                                                    (String
                                                                    ((Ascii
                                                                    (true,
                                                                    false,
                                                                    false,
                                                                    false,
                                                                    true,
                                                                    true,
                                                                    true,
                                                                    false)),
                                                                    EmptyString))))))))))))))
                                                                    then 
                                                                    run_seq0 a
                                                                    else 
                                                                    sx_err
                                                                    (String
                                                                    ((Ascii
                                                                    (true,
                                                                    false,
                                                                    true,
                                                                    false,
                                                                    true,
                                                                    true,
                                                                    true,
                                                                    false)),
                                                                    (String
                                                                    ((Ascii
                                                                    (false,
                                                                    true,
                                                                    true,
                                                                    true,
                                                                    false,
                                                                    true,
                                                                    true,
                                                                    false)),
                                                                    (String
                                                                    ((Ascii
                                                                    (true,
                                                                    true,
                                                                    false,
                                                                    true,
                                                                    false,
                                                                    true,
                                                                    true,
                                                                    false)),
                                                                    (String
                                                                    ((Ascii
                                                                    (false,
                                                                    true,
                                                                    true,
                                                                    true,
                                                                    false,
                                                                    true,
                                                                    true,
                                                                    false)),
                                                                    (String
                                                                    ((Ascii
                                                                    (true,
                                                                    true,
                                                                    true,
                                                                    true,
                                                                    false,
                                                                    true,
                                                                    true,
                                                                    false)),
                                                                    (String
                                                                    ((Ascii
                                                                    (true,
                                                                    true,
                                                                    true,
                                                                    false,
                                                                    true,
                                                                    true,
                                                                    true,
                                                                    false)),
                                                                    (String
                                                                    ((Ascii
                                                                    (false,
                                                                    true,
                                                                    true,
                                                                    true,
                                                                    false,
                                                                    true,
                                                                    true,
                                                                    false)),
                                                                    (String
                                                                    ((Ascii
                                                                    (false,
                                                                    false,
                                                                    false,
                                                                    false,
                                                                    false,
                                                                    true,
                                                                    false,
                                                                    false)),
                                                                    (String
                                                                    ((Ascii
                                                                    (true,
                                                                    true,
                                                                    false,
                                                                    false,
                                                                    false,
                                                                    true,
                                                                    true,
                                                                    false)),
                                                                    (String
                                                                    ((Ascii
                                                                    (true,
                                                                    false,
                                                                    false,
                                                                    false,
                                                                    false,
                                                                    true,
                                                                    true,
                                                                    false)),
                                                                    (String
                                                                    ((Ascii
                                                                    (true,
                                                                    true,
                                                                    false,
                                                                    false,
                                                                    true,
                                                                    true,
                                                                    true,
                                                                    false)),
                                                                    (String
                                                                    ((Ascii
                                                                    (true,
                                                                    false,
                                                                    true,
                                                                    false,
                                                                    false,
                                                                    true,
                                                                    true,
                                                                    false)),
                                                                    (String
                                                                    ((Ascii
                                                                    (false,
                                                                    false,
                                                                    false,
                                                                    false,
                                                                    false,
                                                                    true,
                                                                    false,
                                                                    false)),
                                                                    (String
                                                                    ((Ascii
                                                                    (true,
                                                                    true,
                                                                    false,
                                                                    true,
                                                                    false,
                                                                    true,
                                                                    true,
                                                                    false)),
                                                                    (String
                                                                    ((Ascii
                                                                    (true,
                                                                    false,
                                                                    false,
                                                                    true,
                                                                    false,
                                                                    true,
                                                                    true,
                                                                    false)),
                                                                    (String
                                                                    ((Ascii
                                                                    (false,
                                                                    true,
                                                                    true,
                                                                    true,
                                                                    false,
                                                                    true,
                                                                    true,
                                                                    false)),
                                                                    (String
                                                                    ((Ascii
                                                                    (false,
                                                                    false,
                                                                    true,
                                                                    false,
                                                                    false,
                                                                    true,
                                                                    true,
                                                                    false)),
                                                                    EmptyString))))))))))))))))))))))))))))))))))
