
(** val negb : bool -> bool **)

let negb = function
| true -> false
| false -> true

type nat =
| O
| S of nat

(** val fst : ('a1 * 'a2) -> 'a1 **)

let fst = function
| (x, _) -> x

(** val snd : ('a1 * 'a2) -> 'a2 **)

let snd = function
| (_, y) -> y

(** val length : 'a1 list -> nat **)

let rec length = function
| [] -> O
| _ :: l' -> S (length l')

(** val app : 'a1 list -> 'a1 list -> 'a1 list **)

let rec app l m =
  match l with
  | [] -> m
  | a :: l1 -> a :: (app l1 m)

type comparison =
| Eq
| Lt
| Gt

(** val compOpp : comparison -> comparison **)

let compOpp = function
| Eq -> Eq
| Lt -> Gt
| Gt -> Lt

module Coq__1 = struct
 (** val add : nat -> nat -> nat **)
 let rec add n0 m =
   match n0 with
   | O -> m
   | S p -> S (add p m)
end
include Coq__1

(** val mul : nat -> nat -> nat **)

let rec mul n0 m =
  match n0 with
  | O -> O
  | S p -> add m (mul p m)

(** val sub : nat -> nat -> nat **)

let rec sub n0 m =
  match n0 with
  | O -> n0
  | S k -> (match m with
            | O -> n0
            | S l -> sub k l)

(** val eqb : bool -> bool -> bool **)

let eqb b1 b2 =
  if b1 then b2 else if b2 then false else true

module Nat =
 struct
  (** val sub : nat -> nat -> nat **)

  let rec sub n0 m =
    match n0 with
    | O -> n0
    | S k -> (match m with
              | O -> n0
              | S l -> sub k l)

  (** val eqb : nat -> nat -> bool **)

  let rec eqb n0 m =
    match n0 with
    | O -> (match m with
            | O -> true
            | S _ -> false)
    | S n' -> (match m with
               | O -> false
               | S m' -> eqb n' m')

  (** val leb : nat -> nat -> bool **)

  let rec leb n0 m =
    match n0 with
    | O -> true
    | S n' -> (match m with
               | O -> false
               | S m' -> leb n' m')

  (** val ltb : nat -> nat -> bool **)

  let ltb n0 m =
    leb (S n0) m

  (** val divmod : nat -> nat -> nat -> nat -> nat * nat **)

  let rec divmod x y q u =
    match x with
    | O -> (q, u)
    | S x' ->
      (match u with
       | O -> divmod x' y (S q) y
       | S u' -> divmod x' y q u')

  (** val div : nat -> nat -> nat **)

  let div x y = match y with
  | O -> y
  | S y' -> fst (divmod x y' O y')

  (** val modulo : nat -> nat -> nat **)

  let modulo x = function
  | O -> x
  | S y' -> sub y' (snd (divmod x y' O y'))
 end

(** val nth : nat -> 'a1 list -> 'a1 -> 'a1 **)

let rec nth n0 l default =
  match n0 with
  | O -> (match l with
          | [] -> default
          | x :: _ -> x)
  | S m -> (match l with
            | [] -> default
            | _ :: t -> nth m t default)

(** val rev : 'a1 list -> 'a1 list **)

let rec rev = function
| [] -> []
| x :: l' -> app (rev l') (x :: [])

(** val map : ('a1 -> 'a2) -> 'a1 list -> 'a2 list **)

let rec map f = function
| [] -> []
| a :: t -> (f a) :: (map f t)

(** val fold_left : ('a1 -> 'a2 -> 'a1) -> 'a2 list -> 'a1 -> 'a1 **)

let rec fold_left f l a0 =
  match l with
  | [] -> a0
  | b :: t -> fold_left f t (f a0 b)

(** val firstn : nat -> 'a1 list -> 'a1 list **)

let rec firstn n0 l =
  match n0 with
  | O -> []
  | S n1 -> (match l with
             | [] -> []
             | a :: l0 -> a :: (firstn n1 l0))

(** val skipn : nat -> 'a1 list -> 'a1 list **)

let rec skipn n0 l =
  match n0 with
  | O -> l
  | S n1 -> (match l with
             | [] -> []
             | _ :: l0 -> skipn n1 l0)

(** val repeat : 'a1 -> nat -> 'a1 list **)

let rec repeat x = function
| O -> []
| S k -> x :: (repeat x k)

type positive =
| XI of positive
| XO of positive
| XH

type n =
| N0
| Npos of positive

type z =
| Z0
| Zpos of positive
| Zneg of positive

module Pos =
 struct
  type mask =
  | IsNul
  | IsPos of positive
  | IsNeg
 end

module Coq_Pos =
 struct
  (** val succ : positive -> positive **)

  let rec succ = function
  | XI p -> XO (succ p)
  | XO p -> XI p
  | XH -> XO XH

  (** val add : positive -> positive -> positive **)

  let rec add x y =
    match x with
    | XI p ->
      (match y with
       | XI q -> XO (add_carry p q)
       | XO q -> XI (add p q)
       | XH -> XO (succ p))
    | XO p ->
      (match y with
       | XI q -> XI (add p q)
       | XO q -> XO (add p q)
       | XH -> XI p)
    | XH -> (match y with
             | XI q -> XO (succ q)
             | XO q -> XI q
             | XH -> XO XH)

  (** val add_carry : positive -> positive -> positive **)

  and add_carry x y =
    match x with
    | XI p ->
      (match y with
       | XI q -> XI (add_carry p q)
       | XO q -> XO (add_carry p q)
       | XH -> XI (succ p))
    | XO p ->
      (match y with
       | XI q -> XO (add_carry p q)
       | XO q -> XI (add p q)
       | XH -> XO (succ p))
    | XH ->
      (match y with
       | XI q -> XI (succ q)
       | XO q -> XO (succ q)
       | XH -> XI XH)

  (** val pred_double : positive -> positive **)

  let rec pred_double = function
  | XI p -> XI (XO p)
  | XO p -> XI (pred_double p)
  | XH -> XH

  type mask = Pos.mask =
  | IsNul
  | IsPos of positive
  | IsNeg

  (** val succ_double_mask : mask -> mask **)

  let succ_double_mask = function
  | IsNul -> IsPos XH
  | IsPos p -> IsPos (XI p)
  | IsNeg -> IsNeg

  (** val double_mask : mask -> mask **)

  let double_mask = function
  | IsPos p -> IsPos (XO p)
  | x0 -> x0

  (** val double_pred_mask : positive -> mask **)

  let double_pred_mask = function
  | XI p -> IsPos (XO (XO p))
  | XO p -> IsPos (XO (pred_double p))
  | XH -> IsNul

  (** val sub_mask : positive -> positive -> mask **)

  let rec sub_mask x y =
    match x with
    | XI p ->
      (match y with
       | XI q -> double_mask (sub_mask p q)
       | XO q -> succ_double_mask (sub_mask p q)
       | XH -> IsPos (XO p))
    | XO p ->
      (match y with
       | XI q -> succ_double_mask (sub_mask_carry p q)
       | XO q -> double_mask (sub_mask p q)
       | XH -> IsPos (pred_double p))
    | XH -> (match y with
             | XH -> IsNul
             | _ -> IsNeg)

  (** val sub_mask_carry : positive -> positive -> mask **)

  and sub_mask_carry x y =
    match x with
    | XI p ->
      (match y with
       | XI q -> succ_double_mask (sub_mask_carry p q)
       | XO q -> double_mask (sub_mask p q)
       | XH -> IsPos (pred_double p))
    | XO p ->
      (match y with
       | XI q -> double_mask (sub_mask_carry p q)
       | XO q -> succ_double_mask (sub_mask_carry p q)
       | XH -> double_pred_mask p)
    | XH -> IsNeg

  (** val mul : positive -> positive -> positive **)

  let rec mul x y =
    match x with
    | XI p -> add y (XO (mul p y))
    | XO p -> XO (mul p y)
    | XH -> y

  (** val iter : ('a1 -> 'a1) -> 'a1 -> positive -> 'a1 **)

  let rec iter f x = function
  | XI n' -> f (iter f (iter f x n') n')
  | XO n' -> iter f (iter f x n') n'
  | XH -> f x

  (** val pow : positive -> positive -> positive **)

  let pow x =
    iter (mul x) XH

  (** val size : positive -> positive **)

  let rec size = function
  | XI p0 -> succ (size p0)
  | XO p0 -> succ (size p0)
  | XH -> XH

  (** val compare_cont : comparison -> positive -> positive -> comparison **)

  let rec compare_cont r x y =
    match x with
    | XI p ->
      (match y with
       | XI q -> compare_cont r p q
       | XO q -> compare_cont Gt p q
       | XH -> Gt)
    | XO p ->
      (match y with
       | XI q -> compare_cont Lt p q
       | XO q -> compare_cont r p q
       | XH -> Gt)
    | XH -> (match y with
             | XH -> r
             | _ -> Lt)

  (** val compare : positive -> positive -> comparison **)

  let compare =
    compare_cont Eq

  (** val eqb : positive -> positive -> bool **)

  let rec eqb p q =
    match p with
    | XI p0 -> (match q with
                | XI q0 -> eqb p0 q0
                | _ -> false)
    | XO p0 -> (match q with
                | XO q0 -> eqb p0 q0
                | _ -> false)
    | XH -> (match q with
             | XH -> true
             | _ -> false)

  (** val coq_Nsucc_double : n -> n **)

  let coq_Nsucc_double = function
  | N0 -> Npos XH
  | Npos p -> Npos (XI p)

  (** val coq_Ndouble : n -> n **)

  let coq_Ndouble = function
  | N0 -> N0
  | Npos p -> Npos (XO p)

  (** val coq_land : positive -> positive -> n **)

  let rec coq_land p q =
    match p with
    | XI p0 ->
      (match q with
       | XI q0 -> coq_Nsucc_double (coq_land p0 q0)
       | XO q0 -> coq_Ndouble (coq_land p0 q0)
       | XH -> Npos XH)
    | XO p0 ->
      (match q with
       | XI q0 -> coq_Ndouble (coq_land p0 q0)
       | XO q0 -> coq_Ndouble (coq_land p0 q0)
       | XH -> N0)
    | XH -> (match q with
             | XO _ -> N0
             | _ -> Npos XH)

  (** val iter_op : ('a1 -> 'a1 -> 'a1) -> positive -> 'a1 -> 'a1 **)

  let rec iter_op op p a =
    match p with
    | XI p0 -> op a (iter_op op p0 (op a a))
    | XO p0 -> iter_op op p0 (op a a)
    | XH -> a

  (** val to_nat : positive -> nat **)

  let to_nat x =
    iter_op Coq__1.add x (S O)

  (** val of_succ_nat : nat -> positive **)

  let rec of_succ_nat = function
  | O -> XH
  | S x -> succ (of_succ_nat x)
 end

module N =
 struct
  (** val succ_double : n -> n **)

  let succ_double = function
  | N0 -> Npos XH
  | Npos p -> Npos (XI p)

  (** val double : n -> n **)

  let double = function
  | N0 -> N0
  | Npos p -> Npos (XO p)

  (** val add : n -> n -> n **)

  let add n0 m =
    match n0 with
    | N0 -> m
    | Npos p -> (match m with
                 | N0 -> n0
                 | Npos q -> Npos (Coq_Pos.add p q))

  (** val sub : n -> n -> n **)

  let sub n0 m =
    match n0 with
    | N0 -> N0
    | Npos n' ->
      (match m with
       | N0 -> n0
       | Npos m' ->
         (match Coq_Pos.sub_mask n' m' with
          | Coq_Pos.IsPos p -> Npos p
          | _ -> N0))

  (** val mul : n -> n -> n **)

  let mul n0 m =
    match n0 with
    | N0 -> N0
    | Npos p -> (match m with
                 | N0 -> N0
                 | Npos q -> Npos (Coq_Pos.mul p q))

  (** val compare : n -> n -> comparison **)

  let compare n0 m =
    match n0 with
    | N0 -> (match m with
             | N0 -> Eq
             | Npos _ -> Lt)
    | Npos n' -> (match m with
                  | N0 -> Gt
                  | Npos m' -> Coq_Pos.compare n' m')

  (** val leb : n -> n -> bool **)

  let leb x y =
    match compare x y with
    | Gt -> false
    | _ -> true

  (** val ltb : n -> n -> bool **)

  let ltb x y =
    match compare x y with
    | Lt -> true
    | _ -> false

  (** val div2 : n -> n **)

  let div2 = function
  | N0 -> N0
  | Npos p0 -> (match p0 with
                | XI p -> Npos p
                | XO p -> Npos p
                | XH -> N0)

  (** val even : n -> bool **)

  let even = function
  | N0 -> true
  | Npos p -> (match p with
               | XO _ -> true
               | _ -> false)

  (** val odd : n -> bool **)

  let odd n0 =
    negb (even n0)

  (** val pow : n -> n -> n **)

  let pow n0 = function
  | N0 -> Npos XH
  | Npos p0 -> (match n0 with
                | N0 -> N0
                | Npos q -> Npos (Coq_Pos.pow q p0))

  (** val size : n -> n **)

  let size = function
  | N0 -> N0
  | Npos p -> Npos (Coq_Pos.size p)

  (** val pos_div_eucl : positive -> n -> n * n **)

  let rec pos_div_eucl a b =
    match a with
    | XI a' ->
      let (q, r) = pos_div_eucl a' b in
      let r' = succ_double r in
      if leb b r' then ((succ_double q), (sub r' b)) else ((double q), r')
    | XO a' ->
      let (q, r) = pos_div_eucl a' b in
      let r' = double r in
      if leb b r' then ((succ_double q), (sub r' b)) else ((double q), r')
    | XH ->
      (match b with
       | N0 -> (N0, (Npos XH))
       | Npos p -> (match p with
                    | XH -> ((Npos XH), N0)
                    | _ -> (N0, (Npos XH))))

  (** val div_eucl : n -> n -> n * n **)

  let div_eucl a b =
    match a with
    | N0 -> (N0, N0)
    | Npos na -> (match b with
                  | N0 -> (N0, a)
                  | Npos _ -> pos_div_eucl na b)

  (** val modulo : n -> n -> n **)

  let modulo a b =
    snd (div_eucl a b)

  (** val coq_land : n -> n -> n **)

  let coq_land n0 m =
    match n0 with
    | N0 -> N0
    | Npos p -> (match m with
                 | N0 -> N0
                 | Npos q -> Coq_Pos.coq_land p q)

  (** val shiftr : n -> n -> n **)

  let shiftr a = function
  | N0 -> a
  | Npos p -> Coq_Pos.iter div2 a p

  (** val to_nat : n -> nat **)

  let to_nat = function
  | N0 -> O
  | Npos p -> Coq_Pos.to_nat p

  (** val of_nat : nat -> n **)

  let of_nat = function
  | O -> N0
  | S n' -> Npos (Coq_Pos.of_succ_nat n')

  (** val b2n : bool -> n **)

  let b2n = function
  | true -> Npos XH
  | false -> N0
 end

type ascii =
| Ascii of bool * bool * bool * bool * bool * bool * bool * bool

(** val eqb0 : ascii -> ascii -> bool **)

let eqb0 a b =
  let Ascii (a0, a1, a2, a3, a4, a5, a6, a7) = a in
  let Ascii (b0, b1, b2, b3, b4, b5, b6, b7) = b in
  if if if if if if if eqb a0 b0 then eqb a1 b1 else false
                 then eqb a2 b2
                 else false
              then eqb a3 b3
              else false
           then eqb a4 b4
           else false
        then eqb a5 b5
        else false
     then eqb a6 b6
     else false
  then eqb a7 b7
  else false

module Z =
 struct
  (** val double : z -> z **)

  let double = function
  | Z0 -> Z0
  | Zpos p -> Zpos (XO p)
  | Zneg p -> Zneg (XO p)

  (** val succ_double : z -> z **)

  let succ_double = function
  | Z0 -> Zpos XH
  | Zpos p -> Zpos (XI p)
  | Zneg p -> Zneg (Coq_Pos.pred_double p)

  (** val pred_double : z -> z **)

  let pred_double = function
  | Z0 -> Zneg XH
  | Zpos p -> Zpos (Coq_Pos.pred_double p)
  | Zneg p -> Zneg (XI p)

  (** val pos_sub : positive -> positive -> z **)

  let rec pos_sub x y =
    match x with
    | XI p ->
      (match y with
       | XI q -> double (pos_sub p q)
       | XO q -> succ_double (pos_sub p q)
       | XH -> Zpos (XO p))
    | XO p ->
      (match y with
       | XI q -> pred_double (pos_sub p q)
       | XO q -> double (pos_sub p q)
       | XH -> Zpos (Coq_Pos.pred_double p))
    | XH ->
      (match y with
       | XI q -> Zneg (XO q)
       | XO q -> Zneg (Coq_Pos.pred_double q)
       | XH -> Z0)

  (** val add : z -> z -> z **)

  let add x y =
    match x with
    | Z0 -> y
    | Zpos x' ->
      (match y with
       | Z0 -> x
       | Zpos y' -> Zpos (Coq_Pos.add x' y')
       | Zneg y' -> pos_sub x' y')
    | Zneg x' ->
      (match y with
       | Z0 -> x
       | Zpos y' -> pos_sub y' x'
       | Zneg y' -> Zneg (Coq_Pos.add x' y'))

  (** val opp : z -> z **)

  let opp = function
  | Z0 -> Z0
  | Zpos x0 -> Zneg x0
  | Zneg x0 -> Zpos x0

  (** val sub : z -> z -> z **)

  let sub m n0 =
    add m (opp n0)

  (** val mul : z -> z -> z **)

  let mul x y =
    match x with
    | Z0 -> Z0
    | Zpos x' ->
      (match y with
       | Z0 -> Z0
       | Zpos y' -> Zpos (Coq_Pos.mul x' y')
       | Zneg y' -> Zneg (Coq_Pos.mul x' y'))
    | Zneg x' ->
      (match y with
       | Z0 -> Z0
       | Zpos y' -> Zneg (Coq_Pos.mul x' y')
       | Zneg y' -> Zpos (Coq_Pos.mul x' y'))

  (** val pow_pos : z -> positive -> z **)

  let pow_pos z0 =
    Coq_Pos.iter (mul z0) (Zpos XH)

  (** val pow : z -> z -> z **)

  let pow x = function
  | Z0 -> Zpos XH
  | Zpos p -> pow_pos x p
  | Zneg _ -> Z0

  (** val compare : z -> z -> comparison **)

  let compare x y =
    match x with
    | Z0 -> (match y with
             | Z0 -> Eq
             | Zpos _ -> Lt
             | Zneg _ -> Gt)
    | Zpos x' -> (match y with
                  | Zpos y' -> Coq_Pos.compare x' y'
                  | _ -> Gt)
    | Zneg x' ->
      (match y with
       | Zneg y' -> compOpp (Coq_Pos.compare x' y')
       | _ -> Lt)

  (** val leb : z -> z -> bool **)

  let leb x y =
    match compare x y with
    | Gt -> false
    | _ -> true

  (** val ltb : z -> z -> bool **)

  let ltb x y =
    match compare x y with
    | Lt -> true
    | _ -> false

  (** val eqb : z -> z -> bool **)

  let eqb x y =
    match x with
    | Z0 -> (match y with
             | Z0 -> true
             | _ -> false)
    | Zpos p -> (match y with
                 | Zpos q -> Coq_Pos.eqb p q
                 | _ -> false)
    | Zneg p -> (match y with
                 | Zneg q -> Coq_Pos.eqb p q
                 | _ -> false)

  (** val abs : z -> z **)

  let abs = function
  | Zneg p -> Zpos p
  | x -> x

  (** val to_N : z -> n **)

  let to_N = function
  | Zpos p -> Npos p
  | _ -> N0

  (** val of_nat : nat -> z **)

  let of_nat = function
  | O -> Z0
  | S n1 -> Zpos (Coq_Pos.of_succ_nat n1)

  (** val of_N : n -> z **)

  let of_N = function
  | N0 -> Z0
  | Npos p -> Zpos p

  (** val pos_div_eucl : positive -> z -> z * z **)

  let rec pos_div_eucl a b =
    match a with
    | XI a' ->
      let (q, r) = pos_div_eucl a' b in
      let r' = add (mul (Zpos (XO XH)) r) (Zpos XH) in
      if ltb r' b
      then ((mul (Zpos (XO XH)) q), r')
      else ((add (mul (Zpos (XO XH)) q) (Zpos XH)), (sub r' b))
    | XO a' ->
      let (q, r) = pos_div_eucl a' b in
      let r' = mul (Zpos (XO XH)) r in
      if ltb r' b
      then ((mul (Zpos (XO XH)) q), r')
      else ((add (mul (Zpos (XO XH)) q) (Zpos XH)), (sub r' b))
    | XH -> if leb (Zpos (XO XH)) b then (Z0, (Zpos XH)) else ((Zpos XH), Z0)

  (** val div_eucl : z -> z -> z * z **)

  let div_eucl a b =
    match a with
    | Z0 -> (Z0, Z0)
    | Zpos a' ->
      (match b with
       | Z0 -> (Z0, a)
       | Zpos _ -> pos_div_eucl a' b
       | Zneg b' ->
         let (q, r) = pos_div_eucl a' (Zpos b') in
         (match r with
          | Z0 -> ((opp q), Z0)
          | _ -> ((opp (add q (Zpos XH))), (add b r))))
    | Zneg a' ->
      (match b with
       | Z0 -> (Z0, a)
       | Zpos _ ->
         let (q, r) = pos_div_eucl a' b in
         (match r with
          | Z0 -> ((opp q), Z0)
          | _ -> ((opp (add q (Zpos XH))), (sub b r)))
       | Zneg b' -> let (q, r) = pos_div_eucl a' (Zpos b') in (q, (opp r)))

  (** val modulo : z -> z -> z **)

  let modulo a b =
    let (_, r) = div_eucl a b in r
 end

type string =
| EmptyString
| String of ascii * string

(** val eqb1 : string -> string -> bool **)

let rec eqb1 s1 s2 =
  match s1 with
  | EmptyString ->
    (match s2 with
     | EmptyString -> true
     | String (_, _) -> false)
  | String (c1, s1') ->
    (match s2 with
     | EmptyString -> false
     | String (c2, s2') -> if eqb0 c1 c2 then eqb1 s1' s2' else false)

type bits = bool list

(** val n_of_bits : bits -> n **)

let n_of_bits l =
  fold_left (fun acc b -> N.add (N.mul (Npos (XO XH)) acc) (N.b2n b)) l N0

(** val bits_of_le : nat -> n -> bits **)

let rec bits_of_le w v =
  match w with
  | O -> []
  | S w' -> (N.odd v) :: (bits_of_le w' (N.div2 v))

(** val bits_of : nat -> n -> bits **)

let bits_of w v =
  rev (bits_of_le w v)

(** val zeros : nat -> bits **)

let zeros n0 =
  repeat false n0

(** val ones : nat -> bits **)

let ones n0 =
  repeat true n0

(** val set_nth_opt : nat -> 'a1 -> 'a1 list -> 'a1 list option **)

let rec set_nth_opt n0 x = function
| [] -> None
| h :: t ->
  (match n0 with
   | O -> Some (x :: t)
   | S n' ->
     (match set_nth_opt n' x t with
      | Some t' -> Some (h :: t')
      | None -> None))

(** val short : nat -> 'a1 list -> bool **)

let rec short n0 l =
  match n0 with
  | O -> false
  | S n' -> (match l with
             | [] -> true
             | _ :: t -> short n' t)

type sx =
| SN of n
| SZ of z
| SB of bool
| SBits of bits
| SBytes of n list
| SA of string
| SL of sx list

(** val sx_err : string -> sx **)

let sx_err msg =
  SL ((SA (String ((Ascii (true, false, true, true, false, true, true,
    false)), (String ((Ascii (true, true, true, true, false, true, true,
    false)), (String ((Ascii (false, false, true, false, false, true, true,
    false)), (String ((Ascii (true, false, true, false, false, true, true,
    false)), (String ((Ascii (false, false, true, true, false, true, true,
    false)), (String ((Ascii (true, false, true, true, false, true, false,
    false)), (String ((Ascii (true, true, false, false, true, true, true,
    false)), (String ((Ascii (false, false, false, true, false, true, true,
    false)), (String ((Ascii (true, false, false, false, false, true, true,
    false)), (String ((Ascii (false, false, false, false, true, true, true,
    false)), (String ((Ascii (true, false, true, false, false, true, true,
    false)), (String ((Ascii (true, false, true, true, false, true, false,
    false)), (String ((Ascii (true, false, true, false, false, true, true,
    false)), (String ((Ascii (false, true, false, false, true, true, true,
    false)), (String ((Ascii (false, true, false, false, true, true, true,
    false)), (String ((Ascii (true, true, true, true, false, true, true,
    false)), (String ((Ascii (false, true, false, false, true, true, true,
    false)), EmptyString))))))))))))))))))))))))))))))))))) :: ((SA
    msg) :: []))

(** val sx_nat : nat -> sx **)

let sx_nat n0 =
  SN (N.of_nat n0)

type 'a res =
| Ok of 'a
| Err of n
| Panic of n

(** val eNotEnoughBits : n **)

let eNotEnoughBits =
  Npos XH

(** val eOverflow : n **)

let eOverflow =
  Npos (XO XH)

(** val eTooManyBits : n **)

let eTooManyBits =
  Npos (XI XH)

(** val eZeroSize : n **)

let eZeroSize =
  Npos (XO (XO XH))

(** val eTooSmall : n **)

let eTooSmall =
  Npos (XI (XO XH))

(** val eFuel : n **)

let eFuel =
  Npos (XI (XI (XO (XO (XO (XI XH))))))

(** val pIndex : n **)

let pIndex =
  Npos XH

(** val pSlice : n **)

let pSlice =
  Npos (XO XH)

(** val pShift : n **)

let pShift =
  Npos (XO (XI XH))

type bs = { buf : bits; cap : nat; len : nat; rcur : nat }

(** val nbytes : nat -> nat **)

let nbytes n0 =
  Nat.div (add n0 (S (S (S (S (S (S (S O)))))))) (S (S (S (S (S (S (S (S
    O))))))))

(** val new_bs : nat -> bs **)

let new_bs n0 =
  { buf = (zeros (mul (S (S (S (S (S (S (S (S O)))))))) (nbytes n0))); cap =
    n0; len = O; rcur = O }

(** val avail_read : bs -> nat **)

let avail_read s =
  sub s.len s.rcur

(** val avail_write : bs -> nat **)

let avail_write s =
  sub s.cap s.len

(** val write_bit : bool -> bs -> bs * unit res **)

let write_bit v s =
  if Nat.leb s.cap s.len
  then (s, (Err eOverflow))
  else (match set_nth_opt s.len v s.buf with
        | Some b' ->
          ({ buf = b'; cap = s.cap; len = (S s.len); rcur = s.rcur }, (Ok ()))
        | None -> (s, (Panic pIndex)))

(** val write_bits : bits -> bs -> bs * unit res **)

let rec write_bits l s =
  match l with
  | [] -> (s, (Ok ()))
  | b :: t ->
    let (s', r0) = write_bit b s in
    (match r0 with
     | Ok _ -> write_bits t s'
     | x -> (s', x))

(** val write_uint : n -> nat -> bs -> bs * unit res **)

let write_uint v w s =
  write_bits (bits_of w v) s

(** val two64 : n **)

let two64 =
  Npos (XO (XO (XO (XO (XO (XO (XO (XO (XO (XO (XO (XO (XO (XO (XO (XO (XO
    (XO (XO (XO (XO (XO (XO (XO (XO (XO (XO (XO (XO (XO (XO (XO (XO (XO (XO
    (XO (XO (XO (XO (XO (XO (XO (XO (XO (XO (XO (XO (XO (XO (XO (XO (XO (XO
    (XO (XO (XO (XO (XO (XO (XO (XO (XO (XO (XO
    XH))))))))))))))))))))))))))))))))))))))))))))))))))))))))))))))))

(** val two63 : z **)

let two63 =
  Zpos (XO (XO (XO (XO (XO (XO (XO (XO (XO (XO (XO (XO (XO (XO (XO (XO (XO
    (XO (XO (XO (XO (XO (XO (XO (XO (XO (XO (XO (XO (XO (XO (XO (XO (XO (XO
    (XO (XO (XO (XO (XO (XO (XO (XO (XO (XO (XO (XO (XO (XO (XO (XO (XO (XO
    (XO (XO (XO (XO (XO (XO (XO (XO (XO (XO
    XH)))))))))))))))))))))))))))))))))))))))))))))))))))))))))))))))

(** val u64_of_Z : z -> n **)

let u64_of_Z z0 =
  Z.to_N (Z.modulo z0 (Z.of_N two64))

(** val write_int : z -> nat -> bs -> bs * unit res **)

let write_int v w s =
  match w with
  | O ->
    if Z.ltb v Z0
    then let (s', r0) = write_bit true s in
         (match r0 with
          | Ok _ -> (s', (Panic pShift))
          | x -> (s', x))
    else write_bit false s
  | S w' ->
    (match w' with
     | O ->
       if Z.eqb v (Zneg XH)
       then write_bit true s
       else if Z.eqb v Z0 then write_bit false s else (s, (Ok ()))
     | S _ ->
       if Z.ltb v Z0
       then let (s', r0) = write_bit true s in
            (match r0 with
             | Ok _ ->
               let p =
                 if Nat.ltb w' (S (S (S (S (S (S (S (S (S (S (S (S (S (S (S
                      (S (S (S (S (S (S (S (S (S (S (S (S (S (S (S (S (S (S
                      (S (S (S (S (S (S (S (S (S (S (S (S (S (S (S (S (S (S
                      (S (S (S (S (S (S (S (S (S (S (S (S (S
                      O))))))))))))))))))))))))))))))))))))))))))))))))))))))))))))))))
                 then Z.pow (Zpos (XO XH)) (Z.of_nat w')
                 else Z0
               in
               write_uint (u64_of_Z (Z.add p v)) w' s'
             | x -> (s', x))
       else let (s', r0) = write_bit false s in
            (match r0 with
             | Ok _ -> write_uint (u64_of_Z v) w' s'
             | x -> (s', x)))

(** val write_big_uint : n -> nat -> bs -> bs * unit res **)

let write_big_uint v w s =
  if (||) (Nat.eqb w O) (N.ltb (N.of_nat w) (N.size v))
  then (s, (Err eTooSmall))
  else write_bits (bits_of w v) s

(** val int64_low : z -> z **)

let int64_low z0 =
  let m = Z.modulo (Z.abs z0) (Z.of_N two64) in
  let m' = if Z.ltb m two63 then m else Z.sub m (Z.of_N two64) in
  if Z.ltb z0 Z0
  then let n0 = Z.opp m in
       let r = Z.modulo n0 (Z.of_N two64) in
       if Z.ltb r two63 then r else Z.sub r (Z.of_N two64)
  else m'

(** val write_big_int : z -> nat -> bs -> bs * unit res **)

let write_big_int v w s =
  if Nat.eqb w (S O)
  then if Z.eqb (int64_low v) (Zneg XH)
       then write_bit true s
       else if Z.eqb (int64_low v) Z0
            then write_bit false s
            else (s, (Err eTooSmall))
  else if Z.ltb v Z0
       then let (s', r0) = write_bit true s in
            (match r0 with
             | Ok _ ->
               let nb =
                 Z.add (Z.pow (Zpos (XO XH)) (Z.of_nat (sub w (S O)))) v
               in
               if Z.ltb nb Z0
               then if (||) (Nat.eqb (sub w (S O)) O)
                         (N.ltb (N.of_nat (sub w (S O)))
                           (N.size (Z.to_N (Z.opp nb))))
                    then (s', (Err eTooSmall))
                    else write_bits
                           (bits_of (sub w (S O))
                             (Z.to_N
                               (Z.modulo nb
                                 (Z.pow (Zpos (XO XH))
                                   (Z.of_nat (sub w (S O))))))) s'
               else write_big_uint (Z.to_N nb) (sub w (S O)) s'
             | x -> (s', x))
       else let (s', r0) = write_bit false s in
            (match r0 with
             | Ok _ -> write_big_uint (Z.to_N v) (sub w (S O)) s'
             | x -> (s', x))

(** val bytes_bits : n list -> bits **)

let rec bytes_bits = function
| [] -> []
| b :: t -> app (bits_of (S (S (S (S (S (S (S (S O)))))))) b) (bytes_bits t)

(** val write_bytes : n list -> bs -> bs * unit res **)

let write_bytes l s =
  write_bits (bytes_bits l) s

(** val write_unary : nat -> bs -> bs * unit res **)

let write_unary n0 s =
  let first =
    if Nat.ltb n0 (S (S (S (S (S (S (S (S (S (S (S (S (S (S (S (S (S (S (S (S
         (S (S (S (S (S (S (S (S (S (S (S (S (S (S (S (S (S (S (S (S (S (S (S
         (S (S (S (S (S (S (S (S (S (S (S (S (S (S (S (S (S (S (S (S
         O)))))))))))))))))))))))))))))))))))))))))))))))))))))))))))))))
    then write_uint (N.sub (N.pow (Npos (XO XH)) (N.of_nat n0)) (Npos XH)) n0
           s
    else write_bits (ones n0) s
  in
  let (s', r0) = first in
  (match r0 with
   | Ok _ -> write_bit false s'
   | _ -> first)

(** val get_bit : nat -> bs -> bool **)

let get_bit n0 s =
  nth n0 s.buf false

(** val read_bit : bs -> bs * bool res **)

let read_bit s =
  if Nat.ltb (avail_read s) (S O)
  then (s, (Err eNotEnoughBits))
  else if short (S s.rcur) s.buf
       then (s, (Panic pIndex))
       else ({ buf = s.buf; cap = s.cap; len = s.len; rcur = (S s.rcur) },
              (Ok (get_bit s.rcur s)))

(** val skip : nat -> bs -> bs * unit res **)

let skip n0 s =
  if Nat.ltb (avail_read s) n0
  then (s, (Err eNotEnoughBits))
  else ({ buf = s.buf; cap = s.cap; len = s.len; rcur = (add s.rcur n0) },
         (Ok ()))

(** val load_be : nat -> nat -> bs -> n **)

let load_be k c s =
  n_of_bits
    (firstn (mul (S (S (S (S (S (S (S (S O)))))))) k)
      (app (skipn (mul (S (S (S (S (S (S (S (S O)))))))) c) s.buf)
        (zeros (mul (S (S (S (S (S (S (S (S O)))))))) k))))

(** val set_rcur : bs -> nat -> bs **)

let set_rcur s r =
  { buf = s.buf; cap = s.cap; len = s.len; rcur = r }

(** val read_uint : nat -> bs -> bs * n res **)

let read_uint w s =
  if Nat.ltb (S (S (S (S (S (S (S (S (S (S (S (S (S (S (S (S (S (S (S (S (S
       (S (S (S (S (S (S (S (S (S (S (S (S (S (S (S (S (S (S (S (S (S (S (S
       (S (S (S (S (S (S (S (S (S (S (S (S (S (S (S (S (S (S (S (S
       O)))))))))))))))))))))))))))))))))))))))))))))))))))))))))))))))) w
  then (s, (Err eTooManyBits))
  else if Nat.ltb (avail_read s) w
       then (s, (Err eNotEnoughBits))
       else if (&&)
                 (Nat.eqb
                   (Nat.modulo s.rcur (S (S (S (S (S (S (S (S O))))))))) O)
                 (Nat.eqb (Nat.modulo w (S (S (S (S (S (S (S (S O))))))))) O)
            then let l = Nat.div w (S (S (S (S (S (S (S (S O)))))))) in
                 let c = Nat.div s.rcur (S (S (S (S (S (S (S (S O)))))))) in
                 if short (mul (S (S (S (S (S (S (S (S O)))))))) (add c l))
                      s.buf
                 then (s, (Panic pSlice))
                 else ((set_rcur s (add s.rcur w)), (Ok
                        (n_of_bits
                          (app
                            (zeros
                              (mul (S (S (S (S (S (S (S (S O))))))))
                                (sub (S (S (S (S (S (S (S (S O)))))))) l)))
                            (firstn (mul (S (S (S (S (S (S (S (S O)))))))) l)
                              (skipn
                                (mul (S (S (S (S (S (S (S (S O)))))))) c)
                                s.buf))))))
            else if Nat.ltb w (S (S (S (S (S (S (S (S (S (S (S (S (S (S (S (S
                      (S (S (S (S (S (S (S (S (S (S (S (S (S (S (S (S (S (S
                      (S (S (S (S (S (S (S (S (S (S (S (S (S (S (S (S (S (S
                      (S (S (S (S (S
                      O)))))))))))))))))))))))))))))))))))))))))))))))))))))))))
                 then if short
                           (mul (S (S (S (S (S (S (S (S O))))))))
                             (Nat.div s.rcur (S (S (S (S (S (S (S (S
                               O)))))))))) s.buf
                      then (s, (Panic pSlice))
                      else let u64 =
                             load_be (S (S (S (S (S (S (S (S O))))))))
                               (Nat.div s.rcur (S (S (S (S (S (S (S (S
                                 O))))))))) s
                           in
                           let sh =
                             sub
                               (sub (S (S (S (S (S (S (S (S (S (S (S (S (S (S
                                 (S (S (S (S (S (S (S (S (S (S (S (S (S (S (S
                                 (S (S (S (S (S (S (S (S (S (S (S (S (S (S (S
                                 (S (S (S (S (S (S (S (S (S (S (S (S (S (S (S
                                 (S (S (S (S (S
                                 O))))))))))))))))))))))))))))))))))))))))))))))))))))))))))))))))
                                 w)
                               (Nat.modulo s.rcur (S (S (S (S (S (S (S (S
                                 O)))))))))
                           in
                           ((set_rcur s (add s.rcur w)), (Ok
                           (N.coq_land (N.shiftr u64 (N.of_nat sh))
                             (N.sub (N.pow (Npos (XO XH)) (N.of_nat w)) (Npos
                               XH)))))
                 else if short (add s.rcur w) s.buf
                      then (s, (Panic pIndex))
                      else ((set_rcur s (add s.rcur w)), (Ok
                             (n_of_bits (firstn w (skipn s.rcur s.buf)))))

(** val pick_uint : nat -> bs -> bs * n res **)

let pick_uint w s =
  let (s', r) = read_uint w s in
  (match r with
   | Ok v -> ((set_rcur s' (sub s'.rcur w)), (Ok v))
   | _ -> (s', r))

(** val i64_of_N : n -> z **)

let i64_of_N n0 =
  let m = Z.modulo (Z.of_N n0) (Z.of_N two64) in
  if Z.ltb m two63 then m else Z.sub m (Z.of_N two64)

(** val read_int : nat -> bs -> bs * z res **)

let read_int w s =
  if Nat.ltb (S (S (S (S (S (S (S (S (S (S (S (S (S (S (S (S (S (S (S (S (S
       (S (S (S (S (S (S (S (S (S (S (S (S (S (S (S (S (S (S (S (S (S (S (S
       (S (S (S (S (S (S (S (S (S (S (S (S (S (S (S (S (S (S (S (S
       O)))))))))))))))))))))))))))))))))))))))))))))))))))))))))))))))) w
  then (s, (Err eTooManyBits))
  else if Nat.eqb w O
       then (s, (Err eZeroSize))
       else if Nat.ltb (avail_read s) w
            then (s, (Err eNotEnoughBits))
            else if short (S s.rcur) s.buf
                 then (s, (Panic pIndex))
                 else let sign = get_bit s.rcur s in
                      let s1 = set_rcur s (S s.rcur) in
                      if Nat.eqb w (S O)
                      then (s1, (Ok (if sign then Zneg XH else Z0)))
                      else let (s2, r) = read_uint (sub w (S O)) s1 in
                           (match r with
                            | Ok base ->
                              if sign
                              then (s2, (Ok
                                     (i64_of_N
                                       (N.modulo
                                         (N.sub (N.add base two64)
                                           (N.pow (Npos (XO XH))
                                             (N.of_nat (sub w (S O))))) two64))))
                              else (s2, (Ok (i64_of_N base)))
                            | Err e -> (s2, (Err e))
                            | Panic p -> (s2, (Panic p)))

(** val read_byte : bs -> bs * n res **)

let read_byte s =
  if Nat.ltb (avail_read s) (S (S (S (S (S (S (S (S O))))))))
  then (s, (Err eNotEnoughBits))
  else let c = Nat.div s.rcur (S (S (S (S (S (S (S (S O)))))))) in
       if Nat.eqb (Nat.modulo s.rcur (S (S (S (S (S (S (S (S O))))))))) O
       then if short (mul (S (S (S (S (S (S (S (S O)))))))) (add c (S O)))
                 s.buf
            then (s, (Panic pIndex))
            else ((set_rcur s (add s.rcur (S (S (S (S (S (S (S (S O)))))))))),
                   (Ok
                   (n_of_bits
                     (firstn (S (S (S (S (S (S (S (S O))))))))
                       (skipn (mul (S (S (S (S (S (S (S (S O)))))))) c) s.buf)))))
       else if short
                 (mul (S (S (S (S (S (S (S (S O)))))))) (add c (S (S O))))
                 s.buf
            then (s, (Panic pSlice))
            else let u16 =
                   n_of_bits
                     (firstn (S (S (S (S (S (S (S (S (S (S (S (S (S (S (S (S
                       O))))))))))))))))
                       (skipn (mul (S (S (S (S (S (S (S (S O)))))))) c) s.buf))
                 in
                 let sh =
                   N.shiftr u16
                     (N.of_nat
                       (sub (S (S (S (S (S (S (S (S O))))))))
                         (Nat.modulo s.rcur (S (S (S (S (S (S (S (S O)))))))))))
                 in
                 ((set_rcur s (add s.rcur (S (S (S (S (S (S (S (S O)))))))))),
                 (Ok
                 (N.modulo sh (Npos (XO (XO (XO (XO (XO (XO (XO (XO
                   XH))))))))))))

(** val read_byte_loop : nat -> bs -> n list -> bs * n list res **)

let rec read_byte_loop n0 s acc =
  match n0 with
  | O -> (s, (Ok (rev acc)))
  | S n' ->
    let (s', r) = read_byte s in
    (match r with
     | Ok b -> read_byte_loop n' s' (b :: acc)
     | Err e -> (s', (Err e))
     | Panic p -> (s', (Panic p)))

(** val bytes_of_bits : nat -> bits -> n list **)

let rec bytes_of_bits n0 l =
  match n0 with
  | O -> []
  | S n' ->
    (n_of_bits (firstn (S (S (S (S (S (S (S (S O)))))))) l)) :: (bytes_of_bits
                                                                  n'
                                                                  (skipn (S
                                                                    (S (S (S
                                                                    (S (S (S
                                                                    (S
                                                                    O))))))))
                                                                    l))

(** val read_bytes : nat -> bs -> bs * n list res **)

let read_bytes n0 s =
  if Nat.ltb (avail_read s) (mul n0 (S (S (S (S (S (S (S (S O)))))))))
  then (s, (Err eNotEnoughBits))
  else if Nat.eqb (Nat.modulo s.rcur (S (S (S (S (S (S (S (S O))))))))) O
       then if short
                 (mul (S (S (S (S (S (S (S (S O))))))))
                   (add (Nat.div s.rcur (S (S (S (S (S (S (S (S O))))))))) n0))
                 s.buf
            then (s, (Panic pSlice))
            else ((set_rcur s
                    (add s.rcur (mul n0 (S (S (S (S (S (S (S (S O))))))))))),
                   (Ok
                   (bytes_of_bits n0
                     (skipn
                       (mul (S (S (S (S (S (S (S (S O))))))))
                         (Nat.div s.rcur (S (S (S (S (S (S (S (S O))))))))))
                       s.buf))))
       else read_byte_loop n0 s []

(** val read_big_uint : nat -> bs -> bs * n res **)

let read_big_uint w s =
  if Nat.ltb (avail_read s) w
  then (s, (Err eNotEnoughBits))
  else if Nat.eqb w O
       then (s, (Ok N0))
       else let k = Nat.modulo w (S (S (S (S (S (S (S (S O)))))))) in
            let first = if Nat.eqb k O then (s, (Ok N0)) else read_uint k s in
            let (s1, r) = first in
            (match r with
             | Ok hi ->
               let (s2, r0) =
                 read_bytes (Nat.div w (S (S (S (S (S (S (S (S O))))))))) s1
               in
               (match r0 with
                | Ok bytes ->
                  (s2, (Ok
                    (N.add
                      (N.mul hi
                        (N.pow (Npos (XO XH))
                          (N.of_nat
                            (mul (S (S (S (S (S (S (S (S O))))))))
                              (Nat.div w (S (S (S (S (S (S (S (S O)))))))))))))
                      (n_of_bits (bytes_bits bytes)))))
                | Err e -> (s2, (Err e))
                | Panic p -> (s2, (Panic p)))
             | x -> (s1, x))

(** val read_big_int : nat -> bs -> bs * z res **)

let read_big_int w s =
  if Nat.ltb (avail_read s) w
  then (s, (Err eNotEnoughBits))
  else if Nat.eqb w O
       then (s, (Ok Z0))
       else if short (S s.rcur) s.buf
            then (s, (Panic pIndex))
            else let sign = get_bit s.rcur s in
                 let s1 = set_rcur s (S s.rcur) in
                 if Nat.eqb w (S O)
                 then (s1, (Ok (if sign then Zneg XH else Z0)))
                 else let (s2, r) = read_big_uint (sub w (S O)) s1 in
                      (match r with
                       | Ok base ->
                         (s2, (Ok
                           (if sign
                            then Z.sub (Z.of_N base)
                                   (Z.pow (Zpos (XO XH))
                                     (Z.of_nat (sub w (S O))))
                            else Z.of_N base)))
                       | Err e -> (s2, (Err e))
                       | Panic p -> (s2, (Panic p)))

(** val read_bits : nat -> bs -> bs * bits res **)

let read_bits n0 s =
  if Nat.ltb (avail_read s) n0
  then (s, (Err eNotEnoughBits))
  else if Nat.eqb (Nat.modulo s.rcur (S (S (S (S (S (S (S (S O))))))))) O
       then if short
                 (mul (S (S (S (S (S (S (S (S O))))))))
                   (add (Nat.div s.rcur (S (S (S (S (S (S (S (S O)))))))))
                     (nbytes n0))) s.buf
            then (s, (Panic pSlice))
            else ((set_rcur s (add s.rcur n0)), (Ok
                   (firstn n0
                     (skipn
                       (mul (S (S (S (S (S (S (S (S O))))))))
                         (Nat.div s.rcur (S (S (S (S (S (S (S (S O))))))))))
                       s.buf))))
       else if short (add s.rcur n0) s.buf
            then (s, (Panic pIndex))
            else ((set_rcur s (add s.rcur n0)), (Ok
                   (firstn n0 (skipn s.rcur s.buf))))

(** val read_unary_loop : nat -> bs -> nat -> bs * nat res **)

let rec read_unary_loop fuel s acc =
  match fuel with
  | O -> (s, (Err eFuel))
  | S f ->
    let (s', r) = read_bit s in
    (match r with
     | Ok a -> if a then read_unary_loop f s' (S acc) else (s', (Ok acc))
     | Err e -> (s', (Err e))
     | Panic p -> (s', (Panic p)))

(** val read_unary : bs -> bs * nat res **)

let read_unary s =
  read_unary_loop (S (avail_read s)) s O

(** val reset_counter : bs -> bs **)

let reset_counter s =
  set_rcur s O

(** val abs0 : bs -> bits **)

let abs0 s =
  firstn s.len s.buf

(** val nibble : bits -> n **)

let nibble =
  n_of_bits

(** val nibbles : nat -> bits -> n list **)

let rec nibbles fuel l =
  match fuel with
  | O -> []
  | S f ->
    (match l with
     | [] -> []
     | _ :: _ ->
       (nibble (firstn (S (S (S (S O)))) l)) :: (nibbles f
                                                  (skipn (S (S (S (S O)))) l)))

(** val to_fift : bits -> n list * bool **)

let to_fift l =
  if Nat.eqb (Nat.modulo (length l) (S (S (S (S O))))) O
  then ((nibbles (length l) l), false)
  else let pad =
         sub
           (sub (S (S (S (S O)))) (Nat.modulo (length l) (S (S (S (S O))))))
           (S O)
       in
       ((nibbles (S (length l)) (app l (true :: (zeros pad)))), true)

(** val strip_tag : n -> bits option **)

let strip_tag d =
  let b = bits_of (S (S (S (S O)))) d in
  (match b with
   | [] -> None
   | x :: l ->
     (match l with
      | [] -> None
      | y :: l0 ->
        if y
        then (match l0 with
              | [] -> None
              | z0 :: l1 ->
                if z0
                then (match l1 with
                      | [] -> None
                      | b0 :: l2 ->
                        if b0
                        then (match l2 with
                              | [] -> Some (x :: (y :: (z0 :: [])))
                              | _ :: _ -> None)
                        else (match l2 with
                              | [] -> Some (x :: (y :: []))
                              | _ :: _ -> None))
                else (match l1 with
                      | [] -> None
                      | b0 :: l2 ->
                        if b0
                        then (match l2 with
                              | [] -> Some (x :: (y :: (z0 :: [])))
                              | _ :: _ -> None)
                        else (match l2 with
                              | [] -> Some (x :: [])
                              | _ :: _ -> None)))
        else (match l0 with
              | [] -> None
              | z0 :: l1 ->
                if z0
                then (match l1 with
                      | [] -> None
                      | b0 :: l2 ->
                        if b0
                        then (match l2 with
                              | [] -> Some (x :: (y :: (z0 :: [])))
                              | _ :: _ -> None)
                        else (match l2 with
                              | [] -> Some (x :: (y :: []))
                              | _ :: _ -> None))
                else (match l1 with
                      | [] -> None
                      | b0 :: l2 ->
                        if b0
                        then (match l2 with
                              | [] -> Some (x :: (y :: (z0 :: [])))
                              | _ :: _ -> None)
                        else None))))

(** val concat_nibbles : n list -> bits **)

let rec concat_nibbles = function
| [] -> []
| d :: t -> app (bits_of (S (S (S (S O)))) d) (concat_nibbles t)

(** val out_unit : unit res -> sx **)

let out_unit = function
| Ok _ ->
  SA (String ((Ascii (true, true, true, true, false, true, true, false)),
    (String ((Ascii (true, true, false, true, false, true, true, false)),
    EmptyString))))
| Err _ ->
  SA (String ((Ascii (true, false, true, false, false, true, true, false)),
    (String ((Ascii (false, true, false, false, true, true, true, false)),
    (String ((Ascii (false, true, false, false, true, true, true, false)),
    EmptyString))))))
| Panic _ ->
  SA (String ((Ascii (false, false, false, false, true, true, true, false)),
    (String ((Ascii (true, false, false, false, false, true, true, false)),
    (String ((Ascii (false, true, true, true, false, true, true, false)),
    (String ((Ascii (true, false, false, true, false, true, true, false)),
    (String ((Ascii (true, true, false, false, false, true, true, false)),
    EmptyString))))))))))

(** val out_of : ('a1 -> sx) -> 'a1 res -> sx **)

let out_of f = function
| Ok a -> f a
| Err _ ->
  SA (String ((Ascii (true, false, true, false, false, true, true, false)),
    (String ((Ascii (false, true, false, false, true, true, true, false)),
    (String ((Ascii (false, true, false, false, true, true, true, false)),
    EmptyString))))))
| Panic _ ->
  SA (String ((Ascii (false, false, false, false, true, true, true, false)),
    (String ((Ascii (true, false, false, false, false, true, true, false)),
    (String ((Ascii (false, true, true, true, false, true, true, false)),
    (String ((Ascii (true, false, false, true, false, true, true, false)),
    (String ((Ascii (true, true, false, false, false, true, true, false)),
    EmptyString))))))))))

(** val to_fift_sx : bits -> sx **)

let to_fift_sx l =
  let (ds, u) = to_fift l in
  SL ((SL (map (fun x -> SN x) ds)) :: ((SB u) :: []))

(** val step : bs -> sx -> bs * sx **)

let step s = function
| SL l ->
  (match l with
   | [] ->
     (s,
       (sx_err (String ((Ascii (false, true, false, false, false, true, true,
         false)), (String ((Ascii (true, false, false, false, false, true,
         true, false)), (String ((Ascii (false, false, true, false, false,
         true, true, false)), (String ((Ascii (false, false, false, false,
         false, true, false, false)), (String ((Ascii (true, true, true,
         true, false, true, true, false)), (String ((Ascii (false, false,
         false, false, true, true, true, false)), EmptyString))))))))))))))
   | s0 :: args ->
     (match s0 with
      | SA nm ->
        let is = fun x -> eqb1 nm x in
        (match args with
         | [] ->
           if is (String ((Ascii (false, true, false, false, true, true,
                true, false)), (String ((Ascii (false, true, false, false,
                false, true, true, false)), (String ((Ascii (true, false,
                false, true, false, true, true, false)), (String ((Ascii
                (false, false, true, false, true, true, true, false)),
                EmptyString))))))))
           then let (s', r) = read_bit s in (s', (out_of (fun x -> SB x) r))
           else if is (String ((Ascii (false, true, false, false, true, true,
                     true, false)), (String ((Ascii (false, true, false,
                     false, false, true, true, false)), (String ((Ascii
                     (true, false, false, true, true, true, true, false)),
                     (String ((Ascii (false, false, true, false, true, true,
                     true, false)), (String ((Ascii (true, false, true,
                     false, false, true, true, false)), EmptyString))))))))))
                then let (s', r) = read_byte s in
                     (s', (out_of (fun x -> SN x) r))
                else if is (String ((Ascii (false, true, false, false, true,
                          true, true, false)), (String ((Ascii (true, false,
                          true, false, true, true, true, false)), (String
                          ((Ascii (false, true, true, true, false, true,
                          true, false)), (String ((Ascii (true, false, false,
                          false, false, true, true, false)), (String ((Ascii
                          (false, true, false, false, true, true, true,
                          false)), (String ((Ascii (true, false, false, true,
                          true, true, true, false)), EmptyString))))))))))))
                     then let (s', r) = read_unary s in
                          (s', (out_of sx_nat r))
                     else if is (String ((Ascii (false, true, false, false,
                               true, true, true, false)), (String ((Ascii
                               (true, false, true, false, false, true, true,
                               false)), (String ((Ascii (true, true, false,
                               false, true, true, true, false)), (String
                               ((Ascii (true, false, true, false, false,
                               true, true, false)), (String ((Ascii (false,
                               false, true, false, true, true, true, false)),
                               EmptyString))))))))))
                          then ((reset_counter s), (SA (String ((Ascii (true,
                                 true, true, true, false, true, true,
                                 false)), (String ((Ascii (true, true, false,
                                 true, false, true, true, false)),
                                 EmptyString))))))
                          else if is (String ((Ascii (true, true, false,
                                    false, true, true, true, false)), (String
                                    ((Ascii (false, false, true, false, true,
                                    true, true, false)), (String ((Ascii
                                    (true, false, false, false, false, true,
                                    true, false)), (String ((Ascii (false,
                                    false, true, false, true, true, true,
                                    false)), (String ((Ascii (true, false,
                                    true, false, false, true, true, false)),
                                    EmptyString))))))))))
                               then (s, (SL
                                      ((sx_nat s.len) :: ((sx_nat
                                                            (avail_read s)) :: (
                                      (sx_nat (avail_write s)) :: ((SBits
                                      (abs0 s)) :: []))))))
                               else if is (String ((Ascii (false, true, true,
                                         false, false, true, true, false)),
                                         (String ((Ascii (true, false, false,
                                         true, false, true, true, false)),
                                         (String ((Ascii (false, true, true,
                                         false, false, true, true, false)),
                                         (String ((Ascii (false, false, true,
                                         false, true, true, true, false)),
                                         EmptyString))))))))
                                    then (s, (to_fift_sx (abs0 s)))
                                    else (s,
                                           (sx_err (String ((Ascii (false,
                                             true, false, false, false, true,
                                             true, false)), (String ((Ascii
                                             (true, false, false, false,
                                             false, true, true, false)),
                                             (String ((Ascii (false, false,
                                             true, false, false, true, true,
                                             false)), (String ((Ascii (false,
                                             false, false, false, false,
                                             true, false, false)), (String
                                             ((Ascii (true, true, true, true,
                                             false, true, true, false)),
                                             (String ((Ascii (false, false,
                                             false, false, true, true, true,
                                             false)), (String ((Ascii (false,
                                             false, false, false, true, true,
                                             false, false)),
                                             EmptyString))))))))))))))))
         | s1 :: l0 ->
           (match s1 with
            | SN v ->
              (match l0 with
               | [] ->
                 if is (String ((Ascii (true, true, true, false, true, true,
                      true, false)), (String ((Ascii (true, false, true,
                      false, true, true, true, false)), (String ((Ascii
                      (false, true, true, true, false, true, true, false)),
                      (String ((Ascii (true, false, false, false, false,
                      true, true, false)), (String ((Ascii (false, true,
                      false, false, true, true, true, false)), (String
                      ((Ascii (true, false, false, true, true, true, true,
                      false)), EmptyString))))))))))))
                 then let (s', r) = write_unary (N.to_nat v) s in
                      (s', (out_unit r))
                 else if is (String ((Ascii (false, true, false, false, true,
                           true, true, false)), (String ((Ascii (true, false,
                           true, false, true, true, true, false)), (String
                           ((Ascii (true, false, false, true, false, true,
                           true, false)), (String ((Ascii (false, true, true,
                           true, false, true, true, false)), (String ((Ascii
                           (false, false, true, false, true, true, true,
                           false)), EmptyString))))))))))
                      then let (s', r) = read_uint (N.to_nat v) s in
                           (s', (out_of (fun x -> SN x) r))
                      else if is (String ((Ascii (false, false, false, false,
                                true, true, true, false)), (String ((Ascii
                                (true, false, true, false, true, true, true,
                                false)), (String ((Ascii (true, false, false,
                                true, false, true, true, false)), (String
                                ((Ascii (false, true, true, true, false,
                                true, true, false)), (String ((Ascii (false,
                                false, true, false, true, true, true,
                                false)), EmptyString))))))))))
                           then let (s', r) = pick_uint (N.to_nat v) s in
                                (s', (out_of (fun x -> SN x) r))
                           else if is (String ((Ascii (false, true, false,
                                     false, true, true, true, false)),
                                     (String ((Ascii (true, false, false,
                                     true, false, true, true, false)),
                                     (String ((Ascii (false, true, true,
                                     true, false, true, true, false)),
                                     (String ((Ascii (false, false, true,
                                     false, true, true, true, false)),
                                     EmptyString))))))))
                                then let (s', r) = read_int (N.to_nat v) s in
                                     (s', (out_of (fun x -> SZ x) r))
                                else if is (String ((Ascii (false, true,
                                          false, false, true, true, true,
                                          false)), (String ((Ascii (false,
                                          true, false, false, false, true,
                                          true, false)), (String ((Ascii
                                          (true, false, false, true, false,
                                          true, true, false)), (String
                                          ((Ascii (true, true, true, false,
                                          false, true, true, false)), (String
                                          ((Ascii (true, false, true, false,
                                          true, true, true, false)), (String
                                          ((Ascii (true, false, false, true,
                                          false, true, true, false)), (String
                                          ((Ascii (false, true, true, true,
                                          false, true, true, false)), (String
                                          ((Ascii (false, false, true, false,
                                          true, true, true, false)),
                                          EmptyString))))))))))))))))
                                     then let (s', r) =
                                            read_big_uint (N.to_nat v) s
                                          in
                                          (s', (out_of (fun x -> SN x) r))
                                     else if is (String ((Ascii (false, true,
                                               false, false, true, true,
                                               true, false)), (String ((Ascii
                                               (false, true, false, false,
                                               false, true, true, false)),
                                               (String ((Ascii (true, false,
                                               false, true, false, true,
                                               true, false)), (String ((Ascii
                                               (true, true, true, false,
                                               false, true, true, false)),
                                               (String ((Ascii (true, false,
                                               false, true, false, true,
                                               true, false)), (String ((Ascii
                                               (false, true, true, true,
                                               false, true, true, false)),
                                               (String ((Ascii (false, false,
                                               true, false, true, true, true,
                                               false)),
                                               EmptyString))))))))))))))
                                          then let (s', r) =
                                                 read_big_int (N.to_nat v) s
                                               in
                                               (s',
                                               (out_of (fun x -> SZ x) r))
                                          else if is (String ((Ascii (false,
                                                    true, false, false, true,
                                                    true, true, false)),
                                                    (String ((Ascii (false,
                                                    true, false, false,
                                                    false, true, true,
                                                    false)), (String ((Ascii
                                                    (true, false, false,
                                                    true, true, true, true,
                                                    false)), (String ((Ascii
                                                    (false, false, true,
                                                    false, true, true, true,
                                                    false)), (String ((Ascii
                                                    (true, false, true,
                                                    false, false, true, true,
                                                    false)), (String ((Ascii
                                                    (true, true, false,
                                                    false, true, true, true,
                                                    false)),
                                                    EmptyString))))))))))))
                                               then let (s', r) =
                                                      read_bytes (N.to_nat v)
                                                        s
                                                    in
                                                    (s',
                                                    (out_of (fun x -> SBytes
                                                      x) r))
                                               else if is (String ((Ascii
                                                         (false, true, false,
                                                         false, true, true,
                                                         true, false)),
                                                         (String ((Ascii
                                                         (false, true, false,
                                                         false, false, true,
                                                         true, false)),
                                                         (String ((Ascii
                                                         (true, false, false,
                                                         true, false, true,
                                                         true, false)),
                                                         (String ((Ascii
                                                         (false, false, true,
                                                         false, true, true,
                                                         true, false)),
                                                         (String ((Ascii
                                                         (true, true, false,
                                                         false, true, true,
                                                         true, false)),
                                                         EmptyString))))))))))
                                                    then let (s', r) =
                                                           read_bits
                                                             (N.to_nat v) s
                                                         in
                                                         (s',
                                                         (out_of (fun x ->
                                                           SBits x) r))
                                                    else if is (String
                                                              ((Ascii (false,
                                                              true, false,
                                                              false, true,
                                                              true, true,
                                                              false)),
                                                              (String ((Ascii
                                                              (false, false,
                                                              true, true,
                                                              false, true,
                                                              true, false)),
                                                              (String ((Ascii
                                                              (true, false,
                                                              false, true,
                                                              false, true,
                                                              true, false)),
                                                              (String ((Ascii
                                                              (true, false,
                                                              true, true,
                                                              false, true,
                                                              true, false)),
                                                              EmptyString))))))))
                                                         then let (s', r) =
                                                                read_uint
                                                                  (N.to_nat
                                                                    (N.size v))
                                                                  s
                                                              in
                                                              (s',
                                                              (out_of
                                                                (fun x -> SN
                                                                x) r))
                                                         else if is (String
                                                                   ((Ascii
                                                                   (true,
                                                                   true,
                                                                   false,
                                                                   false,
                                                                   true,
                                                                   true,
                                                                   true,
                                                                   false)),
                                                                   (String
                                                                   ((Ascii
                                                                   (true,
                                                                   true,
                                                                   false,
                                                                   true,
                                                                   false,
                                                                   true,
                                                                   true,
                                                                   false)),
                                                                   (String
                                                                   ((Ascii
                                                                   (true,
                                                                   false,
                                                                   false,
                                                                   true,
                                                                   false,
                                                                   true,
                                                                   true,
                                                                   false)),
                                                                   (String
                                                                   ((Ascii
                                                                   (false,
                                                                   false,
                                                                   false,
                                                                   false,
                                                                   true,
                                                                   true,
                                                                   true,
                                                                   false)),
                                                                   EmptyString))))))))
                                                              then let (
                                                                    s', r) =
                                                                    skip
                                                                    (N.to_nat
                                                                    v) s
                                                                   in
                                                                   (s',
                                                                   (out_unit
                                                                    r))
                                                              else (s,
                                                                    (sx_err
                                                                    (String
                                                                    ((Ascii
                                                                    (false,
                                                                    true,
                                                                    false,
                                                                    false,
                                                                    false,
                                                                    true,
                                                                    true,
                                                                    false)),
                                                                    (String
                                                                    ((Ascii
                                                                    (true,
                                                                    false,
                                                                    false,
                                                                    false,
                                                                    false,
                                                                    true,
                                                                    true,
                                                                    false)),
                                                                    (String
                                                                    ((Ascii
                                                                    (false,
                                                                    false,
                                                                    true,
                                                                    false,
                                                                    false,
                                                                    true,
                                                                    true,
                                                                    false)),
                                                                    (String
                                                                    ((Ascii
                                                                    (false,
                                                                    false,
                                                                    false,
                                                                    false,
                                                                    false,
                                                                    true,
                                                                    false,
                                                                    false)),
                                                                    (String
                                                                    ((Ascii
                                                                    (true,
                                                                    true,
                                                                    true,
                                                                    true,
                                                                    false,
                                                                    true,
                                                                    true,
                                                                    false)),
                                                                    (String
                                                                    ((Ascii
                                                                    (false,
                                                                    false,
                                                                    false,
                                                                    false,
                                                                    true,
                                                                    true,
                                                                    true,
                                                                    false)),
                                                                    (String
                                                                    ((Ascii
                                                                    (false,
                                                                    false,
                                                                    false,
                                                                    false,
                                                                    false,
                                                                    true,
                                                                    false,
                                                                    false)),
                                                                    (String
                                                                    ((Ascii
                                                                    (false,
                                                                    true,
                                                                    true,
                                                                    true,
                                                                    false,
                                                                    true,
                                                                    true,
                                                                    false)),
                                                                    EmptyString))))))))))))))))))
               | s2 :: l1 ->
                 (match s2 with
                  | SN w ->
                    (match l1 with
                     | [] ->
                       if is (String ((Ascii (true, true, true, false, true,
                            true, true, false)), (String ((Ascii (true,
                            false, true, false, true, true, true, false)),
                            (String ((Ascii (true, false, false, true, false,
                            true, true, false)), (String ((Ascii (false,
                            true, true, true, false, true, true, false)),
                            (String ((Ascii (false, false, true, false, true,
                            true, true, false)), EmptyString))))))))))
                       then let (s', r) = write_uint v (N.to_nat w) s in
                            (s', (out_unit r))
                       else if is (String ((Ascii (true, true, true, false,
                                 true, true, true, false)), (String ((Ascii
                                 (false, true, false, false, false, true,
                                 true, false)), (String ((Ascii (true, false,
                                 false, true, false, true, true, false)),
                                 (String ((Ascii (true, true, true, false,
                                 false, true, true, false)), (String ((Ascii
                                 (true, false, true, false, true, true, true,
                                 false)), (String ((Ascii (true, false,
                                 false, true, false, true, true, false)),
                                 (String ((Ascii (false, true, true, true,
                                 false, true, true, false)), (String ((Ascii
                                 (false, false, true, false, true, true,
                                 true, false)), EmptyString))))))))))))))))
                            then let (s', r) = write_big_uint v (N.to_nat w) s
                                 in
                                 (s', (out_unit r))
                            else if is (String ((Ascii (true, true, true,
                                      false, true, true, true, false)),
                                      (String ((Ascii (false, false, true,
                                      true, false, true, true, false)),
                                      (String ((Ascii (true, false, false,
                                      true, false, true, true, false)),
                                      (String ((Ascii (true, false, true,
                                      true, false, true, true, false)),
                                      EmptyString))))))))
                                 then let (s', r) =
                                        write_uint v (N.to_nat (N.size w)) s
                                      in
                                      (s', (out_unit r))
                                 else (s,
                                        (sx_err (String ((Ascii (false, true,
                                          false, false, false, true, true,
                                          false)), (String ((Ascii (true,
                                          false, false, false, false, true,
                                          true, false)), (String ((Ascii
                                          (false, false, true, false, false,
                                          true, true, false)), (String
                                          ((Ascii (false, false, false,
                                          false, false, true, false, false)),
                                          (String ((Ascii (true, true, true,
                                          true, false, true, true, false)),
                                          (String ((Ascii (false, false,
                                          false, false, true, true, true,
                                          false)), (String ((Ascii (false,
                                          false, false, false, false, true,
                                          false, false)), (String ((Ascii
                                          (false, true, true, true, false,
                                          true, true, false)), (String
                                          ((Ascii (false, true, true, true,
                                          false, true, true, false)),
                                          EmptyString))))))))))))))))))))
                     | _ :: _ ->
                       (s,
                         (sx_err (String ((Ascii (false, true, false, false,
                           false, true, true, false)), (String ((Ascii (true,
                           false, false, false, false, true, true, false)),
                           (String ((Ascii (false, false, true, false, false,
                           true, true, false)), (String ((Ascii (false,
                           false, false, false, false, true, false, false)),
                           (String ((Ascii (true, true, true, true, false,
                           true, true, false)), (String ((Ascii (false,
                           false, false, false, true, true, true, false)),
                           (String ((Ascii (false, false, false, false,
                           false, true, false, false)), (String ((Ascii
                           (true, false, false, false, false, true, true,
                           false)), (String ((Ascii (false, true, false,
                           false, true, true, true, false)), (String ((Ascii
                           (true, true, true, false, false, true, true,
                           false)), (String ((Ascii (true, true, false,
                           false, true, true, true, false)),
                           EmptyString)))))))))))))))))))))))))
                  | _ ->
                    (s,
                      (sx_err (String ((Ascii (false, true, false, false,
                        false, true, true, false)), (String ((Ascii (true,
                        false, false, false, false, true, true, false)),
                        (String ((Ascii (false, false, true, false, false,
                        true, true, false)), (String ((Ascii (false, false,
                        false, false, false, true, false, false)), (String
                        ((Ascii (true, true, true, true, false, true, true,
                        false)), (String ((Ascii (false, false, false, false,
                        true, true, true, false)), (String ((Ascii (false,
                        false, false, false, false, true, false, false)),
                        (String ((Ascii (true, false, false, false, false,
                        true, true, false)), (String ((Ascii (false, true,
                        false, false, true, true, true, false)), (String
                        ((Ascii (true, true, true, false, false, true, true,
                        false)), (String ((Ascii (true, true, false, false,
                        true, true, true, false)),
                        EmptyString))))))))))))))))))))))))))
            | SZ v ->
              (match l0 with
               | [] ->
                 (s,
                   (sx_err (String ((Ascii (false, true, false, false, false,
                     true, true, false)), (String ((Ascii (true, false,
                     false, false, false, true, true, false)), (String
                     ((Ascii (false, false, true, false, false, true, true,
                     false)), (String ((Ascii (false, false, false, false,
                     false, true, false, false)), (String ((Ascii (true,
                     true, true, true, false, true, true, false)), (String
                     ((Ascii (false, false, false, false, true, true, true,
                     false)), (String ((Ascii (false, false, false, false,
                     false, true, false, false)), (String ((Ascii (true,
                     false, false, false, false, true, true, false)), (String
                     ((Ascii (false, true, false, false, true, true, true,
                     false)), (String ((Ascii (true, true, true, false,
                     false, true, true, false)), (String ((Ascii (true, true,
                     false, false, true, true, true, false)),
                     EmptyString))))))))))))))))))))))))
               | s2 :: l1 ->
                 (match s2 with
                  | SN w ->
                    (match l1 with
                     | [] ->
                       if is (String ((Ascii (true, true, true, false, true,
                            true, true, false)), (String ((Ascii (true,
                            false, false, true, false, true, true, false)),
                            (String ((Ascii (false, true, true, true, false,
                            true, true, false)), (String ((Ascii (false,
                            false, true, false, true, true, true, false)),
                            EmptyString))))))))
                       then let (s', r) = write_int v (N.to_nat w) s in
                            (s', (out_unit r))
                       else if is (String ((Ascii (true, true, true, false,
                                 true, true, true, false)), (String ((Ascii
                                 (false, true, false, false, false, true,
                                 true, false)), (String ((Ascii (true, false,
                                 false, true, false, true, true, false)),
                                 (String ((Ascii (true, true, true, false,
                                 false, true, true, false)), (String ((Ascii
                                 (true, false, false, true, false, true,
                                 true, false)), (String ((Ascii (false, true,
                                 true, true, false, true, true, false)),
                                 (String ((Ascii (false, false, true, false,
                                 true, true, true, false)),
                                 EmptyString))))))))))))))
                            then let (s', r) = write_big_int v (N.to_nat w) s
                                 in
                                 (s', (out_unit r))
                            else (s,
                                   (sx_err (String ((Ascii (false, true,
                                     false, false, false, true, true,
                                     false)), (String ((Ascii (true, false,
                                     false, false, false, true, true,
                                     false)), (String ((Ascii (false, false,
                                     true, false, false, true, true, false)),
                                     (String ((Ascii (false, false, false,
                                     false, false, true, false, false)),
                                     (String ((Ascii (true, true, true, true,
                                     false, true, true, false)), (String
                                     ((Ascii (false, false, false, false,
                                     true, true, true, false)), (String
                                     ((Ascii (false, false, false, false,
                                     false, true, false, false)), (String
                                     ((Ascii (false, true, false, true, true,
                                     true, true, false)), (String ((Ascii
                                     (false, true, true, true, false, true,
                                     true, false)),
                                     EmptyString))))))))))))))))))))
                     | _ :: _ ->
                       (s,
                         (sx_err (String ((Ascii (false, true, false, false,
                           false, true, true, false)), (String ((Ascii (true,
                           false, false, false, false, true, true, false)),
                           (String ((Ascii (false, false, true, false, false,
                           true, true, false)), (String ((Ascii (false,
                           false, false, false, false, true, false, false)),
                           (String ((Ascii (true, true, true, true, false,
                           true, true, false)), (String ((Ascii (false,
                           false, false, false, true, true, true, false)),
                           (String ((Ascii (false, false, false, false,
                           false, true, false, false)), (String ((Ascii
                           (true, false, false, false, false, true, true,
                           false)), (String ((Ascii (false, true, false,
                           false, true, true, true, false)), (String ((Ascii
                           (true, true, true, false, false, true, true,
                           false)), (String ((Ascii (true, true, false,
                           false, true, true, true, false)),
                           EmptyString)))))))))))))))))))))))))
                  | _ ->
                    (s,
                      (sx_err (String ((Ascii (false, true, false, false,
                        false, true, true, false)), (String ((Ascii (true,
                        false, false, false, false, true, true, false)),
                        (String ((Ascii (false, false, true, false, false,
                        true, true, false)), (String ((Ascii (false, false,
                        false, false, false, true, false, false)), (String
                        ((Ascii (true, true, true, true, false, true, true,
                        false)), (String ((Ascii (false, false, false, false,
                        true, true, true, false)), (String ((Ascii (false,
                        false, false, false, false, true, false, false)),
                        (String ((Ascii (true, false, false, false, false,
                        true, true, false)), (String ((Ascii (false, true,
                        false, false, true, true, true, false)), (String
                        ((Ascii (true, true, true, false, false, true, true,
                        false)), (String ((Ascii (true, true, false, false,
                        true, true, true, false)),
                        EmptyString))))))))))))))))))))))))))
            | SB b ->
              (match l0 with
               | [] ->
                 if is (String ((Ascii (true, true, true, false, true, true,
                      true, false)), (String ((Ascii (false, true, false,
                      false, false, true, true, false)), (String ((Ascii
                      (true, false, false, true, false, true, true, false)),
                      (String ((Ascii (false, false, true, false, true, true,
                      true, false)), EmptyString))))))))
                 then let (s', r) = write_bit b s in (s', (out_unit r))
                 else (s,
                        (sx_err (String ((Ascii (false, true, false, false,
                          false, true, true, false)), (String ((Ascii (true,
                          false, false, false, false, true, true, false)),
                          (String ((Ascii (false, false, true, false, false,
                          true, true, false)), (String ((Ascii (false, false,
                          false, false, false, true, false, false)), (String
                          ((Ascii (true, true, true, true, false, true, true,
                          false)), (String ((Ascii (false, false, false,
                          false, true, true, true, false)), (String ((Ascii
                          (false, false, false, false, false, true, false,
                          false)), (String ((Ascii (false, true, false,
                          false, false, true, true, false)),
                          EmptyString))))))))))))))))))
               | _ :: _ ->
                 (s,
                   (sx_err (String ((Ascii (false, true, false, false, false,
                     true, true, false)), (String ((Ascii (true, false,
                     false, false, false, true, true, false)), (String
                     ((Ascii (false, false, true, false, false, true, true,
                     false)), (String ((Ascii (false, false, false, false,
                     false, true, false, false)), (String ((Ascii (true,
                     true, true, true, false, true, true, false)), (String
                     ((Ascii (false, false, false, false, true, true, true,
                     false)), (String ((Ascii (false, false, false, false,
                     false, true, false, false)), (String ((Ascii (true,
                     false, false, false, false, true, true, false)), (String
                     ((Ascii (false, true, false, false, true, true, true,
                     false)), (String ((Ascii (true, true, true, false,
                     false, true, true, false)), (String ((Ascii (true, true,
                     false, false, true, true, true, false)),
                     EmptyString)))))))))))))))))))))))))
            | SBits l1 ->
              (match l0 with
               | [] ->
                 if is (String ((Ascii (true, true, true, false, true, true,
                      true, false)), (String ((Ascii (false, true, false,
                      false, false, true, true, false)), (String ((Ascii
                      (true, false, false, true, false, true, true, false)),
                      (String ((Ascii (false, false, true, false, true, true,
                      true, false)), (String ((Ascii (true, true, false,
                      false, true, true, true, false)), EmptyString))))))))))
                 then let (s', r) = write_bits l1 s in (s', (out_unit r))
                 else (s,
                        (sx_err (String ((Ascii (false, true, false, false,
                          false, true, true, false)), (String ((Ascii (true,
                          false, false, false, false, true, true, false)),
                          (String ((Ascii (false, false, true, false, false,
                          true, true, false)), (String ((Ascii (false, false,
                          false, false, false, true, false, false)), (String
                          ((Ascii (true, true, true, true, false, true, true,
                          false)), (String ((Ascii (false, false, false,
                          false, true, true, true, false)), (String ((Ascii
                          (false, false, false, false, false, true, false,
                          false)), (String ((Ascii (false, true, false,
                          false, false, true, true, false)), (String ((Ascii
                          (true, false, false, true, false, true, true,
                          false)), (String ((Ascii (false, false, true,
                          false, true, true, true, false)), (String ((Ascii
                          (true, true, false, false, true, true, true,
                          false)), EmptyString))))))))))))))))))))))))
               | _ :: _ ->
                 (s,
                   (sx_err (String ((Ascii (false, true, false, false, false,
                     true, true, false)), (String ((Ascii (true, false,
                     false, false, false, true, true, false)), (String
                     ((Ascii (false, false, true, false, false, true, true,
                     false)), (String ((Ascii (false, false, false, false,
                     false, true, false, false)), (String ((Ascii (true,
                     true, true, true, false, true, true, false)), (String
                     ((Ascii (false, false, false, false, true, true, true,
                     false)), (String ((Ascii (false, false, false, false,
                     false, true, false, false)), (String ((Ascii (true,
                     false, false, false, false, true, true, false)), (String
                     ((Ascii (false, true, false, false, true, true, true,
                     false)), (String ((Ascii (true, true, true, false,
                     false, true, true, false)), (String ((Ascii (true, true,
                     false, false, true, true, true, false)),
                     EmptyString)))))))))))))))))))))))))
            | SBytes l1 ->
              (match l0 with
               | [] ->
                 if is (String ((Ascii (true, true, true, false, true, true,
                      true, false)), (String ((Ascii (false, true, false,
                      false, false, true, true, false)), (String ((Ascii
                      (true, false, false, true, true, true, true, false)),
                      (String ((Ascii (false, false, true, false, true, true,
                      true, false)), (String ((Ascii (true, false, true,
                      false, false, true, true, false)), (String ((Ascii
                      (true, true, false, false, true, true, true, false)),
                      EmptyString))))))))))))
                 then let (s', r) = write_bytes l1 s in (s', (out_unit r))
                 else (s,
                        (sx_err (String ((Ascii (false, true, false, false,
                          false, true, true, false)), (String ((Ascii (true,
                          false, false, false, false, true, true, false)),
                          (String ((Ascii (false, false, true, false, false,
                          true, true, false)), (String ((Ascii (false, false,
                          false, false, false, true, false, false)), (String
                          ((Ascii (true, true, true, true, false, true, true,
                          false)), (String ((Ascii (false, false, false,
                          false, true, true, true, false)), (String ((Ascii
                          (false, false, false, false, false, true, false,
                          false)), (String ((Ascii (false, false, false,
                          true, true, true, true, false)),
                          EmptyString))))))))))))))))))
               | _ :: _ ->
                 (s,
                   (sx_err (String ((Ascii (false, true, false, false, false,
                     true, true, false)), (String ((Ascii (true, false,
                     false, false, false, true, true, false)), (String
                     ((Ascii (false, false, true, false, false, true, true,
                     false)), (String ((Ascii (false, false, false, false,
                     false, true, false, false)), (String ((Ascii (true,
                     true, true, true, false, true, true, false)), (String
                     ((Ascii (false, false, false, false, true, true, true,
                     false)), (String ((Ascii (false, false, false, false,
                     false, true, false, false)), (String ((Ascii (true,
                     false, false, false, false, true, true, false)), (String
                     ((Ascii (false, true, false, false, true, true, true,
                     false)), (String ((Ascii (true, true, true, false,
                     false, true, true, false)), (String ((Ascii (true, true,
                     false, false, true, true, true, false)),
                     EmptyString)))))))))))))))))))))))))
            | _ ->
              (s,
                (sx_err (String ((Ascii (false, true, false, false, false,
                  true, true, false)), (String ((Ascii (true, false, false,
                  false, false, true, true, false)), (String ((Ascii (false,
                  false, true, false, false, true, true, false)), (String
                  ((Ascii (false, false, false, false, false, true, false,
                  false)), (String ((Ascii (true, true, true, true, false,
                  true, true, false)), (String ((Ascii (false, false, false,
                  false, true, true, true, false)), (String ((Ascii (false,
                  false, false, false, false, true, false, false)), (String
                  ((Ascii (true, false, false, false, false, true, true,
                  false)), (String ((Ascii (false, true, false, false, true,
                  true, true, false)), (String ((Ascii (true, true, true,
                  false, false, true, true, false)), (String ((Ascii (true,
                  true, false, false, true, true, true, false)),
                  EmptyString))))))))))))))))))))))))))
      | _ ->
        (s,
          (sx_err (String ((Ascii (false, true, false, false, false, true,
            true, false)), (String ((Ascii (true, false, false, false, false,
            true, true, false)), (String ((Ascii (false, false, true, false,
            false, true, true, false)), (String ((Ascii (false, false, false,
            false, false, true, false, false)), (String ((Ascii (true, true,
            true, true, false, true, true, false)), (String ((Ascii (false,
            false, false, false, true, true, true, false)),
            EmptyString))))))))))))))))
| _ ->
  (s,
    (sx_err (String ((Ascii (false, true, false, false, false, true, true,
      false)), (String ((Ascii (true, false, false, false, false, true, true,
      false)), (String ((Ascii (false, false, true, false, false, true, true,
      false)), (String ((Ascii (false, false, false, false, false, true,
      false, false)), (String ((Ascii (true, true, true, true, false, true,
      true, false)), (String ((Ascii (false, false, false, false, true, true,
      true, false)), EmptyString))))))))))))))

(** val run_ops : bs -> sx list -> sx list **)

let rec run_ops s = function
| [] -> []
| o :: t -> let (s', r) = step s o in r :: (run_ops s' t)

(** val run_seq : sx -> sx **)

let run_seq = function
| SL l ->
  (match l with
   | [] ->
     sx_err (String ((Ascii (true, true, false, false, true, true, true,
       false)), (String ((Ascii (true, false, true, false, false, true, true,
       false)), (String ((Ascii (true, false, false, false, true, true, true,
       false)), EmptyString))))))
   | s :: ops ->
     (match s with
      | SN c -> SL (run_ops (new_bs (N.to_nat c)) ops)
      | _ ->
        sx_err (String ((Ascii (true, true, false, false, true, true, true,
          false)), (String ((Ascii (true, false, true, false, false, true,
          true, false)), (String ((Ascii (true, false, false, false, true,
          true, true, false)), EmptyString))))))))
| _ ->
  sx_err (String ((Ascii (true, true, false, false, true, true, true,
    false)), (String ((Ascii (true, false, true, false, false, true, true,
    false)), (String ((Ascii (true, false, false, false, true, true, true,
    false)), EmptyString))))))

(** val hex_to_int : n -> n option **)

let hex_to_int c =
  if (&&) (N.leb (Npos (XO (XO (XO (XO (XI XH)))))) c)
       (N.leb c (Npos (XI (XO (XO (XI (XI XH)))))))
  then Some (N.sub c (Npos (XO (XO (XO (XO (XI XH)))))))
  else if (&&) (N.leb (Npos (XI (XO (XO (XO (XO (XI XH))))))) c)
            (N.leb c (Npos (XO (XI (XI (XO (XO (XI XH))))))))
       then Some
              (N.add (N.sub c (Npos (XI (XO (XO (XO (XO (XI XH)))))))) (Npos
                (XO (XI (XO XH)))))
       else if (&&) (N.leb (Npos (XI (XO (XO (XO (XO (XO XH))))))) c)
                 (N.leb c (Npos (XO (XI (XI (XO (XO (XO XH))))))))
            then Some
                   (N.add (N.sub c (Npos (XI (XO (XO (XO (XO (XO XH))))))))
                     (Npos (XO (XI (XO XH)))))
            else None

(** val hex_digits : n list -> n list option **)

let rec hex_digits = function
| [] -> Some []
| c :: t ->
  (match hex_to_int c with
   | Some d ->
     (match hex_digits t with
      | Some ds -> Some (d :: ds)
      | None -> None)
   | None -> None)

(** val ref_suffix : n -> bits option **)

let ref_suffix c =
  match hex_to_int c with
  | Some d -> strip_tag d
  | None -> None

(** val from_fift_chars : n list -> bits option **)

let from_fift_chars cs =
  match rev cs with
  | [] ->
    (match hex_digits cs with
     | Some ds -> Some (concat_nibbles ds)
     | None -> None)
  | n0 :: rest ->
    (match n0 with
     | N0 ->
       (match hex_digits cs with
        | Some ds -> Some (concat_nibbles ds)
        | None -> None)
     | Npos p ->
       (match p with
        | XI p0 ->
          (match p0 with
           | XI p1 ->
             (match p1 with
              | XI p2 ->
                (match p2 with
                 | XI p3 ->
                   (match p3 with
                    | XI p4 ->
                      (match p4 with
                       | XO p5 ->
                         (match p5 with
                          | XH ->
                            (match rest with
                             | [] -> None
                             | c :: body ->
                               (match ref_suffix c with
                                | Some tail ->
                                  (match hex_digits (rev body) with
                                   | Some ds ->
                                     Some (app (concat_nibbles ds) tail)
                                   | None -> None)
                                | None -> None))
                          | _ ->
                            (match hex_digits cs with
                             | Some ds -> Some (concat_nibbles ds)
                             | None -> None))
                       | _ ->
                         (match hex_digits cs with
                          | Some ds -> Some (concat_nibbles ds)
                          | None -> None))
                    | _ ->
                      (match hex_digits cs with
                       | Some ds -> Some (concat_nibbles ds)
                       | None -> None))
                 | _ ->
                   (match hex_digits cs with
                    | Some ds -> Some (concat_nibbles ds)
                    | None -> None))
              | _ ->
                (match hex_digits cs with
                 | Some ds -> Some (concat_nibbles ds)
                 | None -> None))
           | _ ->
             (match hex_digits cs with
              | Some ds -> Some (concat_nibbles ds)
              | None -> None))
        | _ ->
          (match hex_digits cs with
           | Some ds -> Some (concat_nibbles ds)
           | None -> None)))

(** val hex_char : n -> n **)

let hex_char d =
  if N.ltb d (Npos (XO (XI (XO XH))))
  then N.add (Npos (XO (XO (XO (XO (XI XH)))))) d
  else N.sub (N.add (Npos (XI (XO (XO (XO (XO (XO XH))))))) d) (Npos (XO (XI
         (XO XH))))

(** val to_fift_chars : bits -> n list **)

let to_fift_chars l =
  let (ds, u) = to_fift l in
  app (map hex_char ds)
    (if u then (Npos (XI (XI (XI (XI (XI (XO XH))))))) :: [] else [])

(** val run_from_fift : sx -> sx **)

let run_from_fift = function
| SBytes cs ->
  (match from_fift_chars cs with
   | Some l -> SBits l
   | None ->
     SA (String ((Ascii (true, false, true, false, false, true, true,
       false)), (String ((Ascii (false, true, false, false, true, true, true,
       false)), (String ((Ascii (false, true, false, false, true, true, true,
       false)), EmptyString)))))))
| _ ->
  sx_err (String ((Ascii (false, true, true, false, false, true, true,
    false)), (String ((Ascii (false, true, false, false, true, true, true,
    false)), (String ((Ascii (true, true, true, true, false, true, true,
    false)), (String ((Ascii (true, false, true, true, false, true, true,
    false)), (String ((Ascii (false, true, true, false, false, true, true,
    false)), (String ((Ascii (true, false, false, true, false, true, true,
    false)), (String ((Ascii (false, true, true, false, false, true, true,
    false)), (String ((Ascii (false, false, true, false, true, true, true,
    false)), EmptyString))))))))))))))))

(** val run_to_fift : sx -> sx **)

let run_to_fift = function
| SBits l -> SBytes (to_fift_chars l)
| _ ->
  sx_err (String ((Ascii (false, false, true, false, true, true, true,
    false)), (String ((Ascii (true, true, true, true, false, true, true,
    false)), (String ((Ascii (false, true, true, false, false, true, true,
    false)), (String ((Ascii (true, false, false, true, false, true, true,
    false)), (String ((Ascii (false, true, true, false, false, true, true,
    false)), (String ((Ascii (false, false, true, false, true, true, true,
    false)), EmptyString))))))))))))

(** val run_minbits : sx -> sx **)

let run_minbits = function
| SN v -> SN (N.size v)
| _ ->
  sx_err (String ((Ascii (true, false, true, true, false, true, true,
    false)), (String ((Ascii (true, false, false, true, false, true, true,
    false)), (String ((Ascii (false, true, true, true, false, true, true,
    false)), (String ((Ascii (false, true, false, false, false, true, true,
    false)), (String ((Ascii (true, false, false, true, false, true, true,
    false)), (String ((Ascii (false, false, true, false, true, true, true,
    false)), (String ((Ascii (true, true, false, false, true, true, true,
    false)), EmptyString))))))))))))))

(** val run : string -> sx -> sx **)

let run name a =
  let is = fun x -> eqb1 name x in
  if is (String ((Ascii (true, true, false, false, false, true, true,
       false)), (String ((Ascii (false, false, false, false, true, true,
       false, false)), (String ((Ascii (false, true, true, false, true, true,
       false, false)), (String ((Ascii (false, true, true, true, false, true,
       false, false)), (String ((Ascii (true, true, false, false, true, true,
       true, false)), (String ((Ascii (true, false, true, false, false, true,
       true, false)), (String ((Ascii (true, false, false, false, true, true,
       true, false)), EmptyString))))))))))))))
  then run_seq a
  else if is (String ((Ascii (true, true, false, false, false, true, true,
            false)), (String ((Ascii (false, false, false, false, true, true,
            false, false)), (String ((Ascii (false, true, true, false, true,
            true, false, false)), (String ((Ascii (false, true, true, true,
            false, true, false, false)), (String ((Ascii (false, true, true,
            false, false, true, true, false)), (String ((Ascii (false, true,
            false, false, true, true, true, false)), (String ((Ascii (true,
            true, true, true, false, true, true, false)), (String ((Ascii
            (true, false, true, true, false, true, true, false)), (String
            ((Ascii (false, true, true, false, false, true, true, false)),
            (String ((Ascii (true, false, false, true, false, true, true,
            false)), (String ((Ascii (false, true, true, false, false, true,
            true, false)), (String ((Ascii (false, false, true, false, true,
            true, true, false)), EmptyString))))))))))))))))))))))))
       then run_from_fift a
       else if is (String ((Ascii (true, true, false, false, false, true,
                 true, false)), (String ((Ascii (false, false, false, false,
                 true, true, false, false)), (String ((Ascii (false, true,
                 true, false, true, true, false, false)), (String ((Ascii
                 (false, true, true, true, false, true, false, false)),
                 (String ((Ascii (false, false, true, false, true, true,
                 true, false)), (String ((Ascii (true, true, true, true,
                 false, true, true, false)), (String ((Ascii (false, true,
                 true, false, false, true, true, false)), (String ((Ascii
                 (true, false, false, true, false, true, true, false)),
                 (String ((Ascii (false, true, true, false, false, true,
                 true, false)), (String ((Ascii (false, false, true, false,
                 true, true, true, false)), EmptyString))))))))))))))))))))
            then run_to_fift a
            else if is (String ((Ascii (true, true, false, false, false,
                      true, true, false)), (String ((Ascii (false, false,
                      false, false, true, true, false, false)), (String
                      ((Ascii (false, true, true, false, true, true, false,
                      false)), (String ((Ascii (false, true, true, true,
                      false, true, false, false)), (String ((Ascii (true,
                      false, true, true, false, true, true, false)), (String
                      ((Ascii (true, false, false, true, false, true, true,
                      false)), (String ((Ascii (false, true, true, true,
                      false, true, true, false)), (String ((Ascii (false,
                      true, false, false, false, true, true, false)), (String
                      ((Ascii (true, false, false, true, false, true, true,
                      false)), (String ((Ascii (false, false, true, false,
                      true, true, true, false)), (String ((Ascii (true, true,
                      false, false, true, true, true, false)),
                      EmptyString))))))))))))))))))))))
                 then run_minbits a
                 else sx_err (String ((Ascii (true, false, true, false, true,
                        true, true, false)), (String ((Ascii (false, true,
                        true, true, false, true, true, false)), (String
                        ((Ascii (true, true, false, true, false, true, true,
                        false)), (String ((Ascii (false, true, true, true,
                        false, true, true, false)), (String ((Ascii (true,
                        true, true, true, false, true, true, false)), (String
                        ((Ascii (true, true, true, false, true, true, true,
                        false)), (String ((Ascii (false, true, true, true,
                        false, true, true, false)), (String ((Ascii (false,
                        false, false, false, false, true, false, false)),
                        (String ((Ascii (true, true, false, false, false,
                        true, true, false)), (String ((Ascii (true, false,
                        false, false, false, true, true, false)), (String
                        ((Ascii (true, true, false, false, true, true, true,
                        false)), (String ((Ascii (true, false, true, false,
                        false, true, true, false)), (String ((Ascii (false,
                        false, false, false, false, true, false, false)),
                        (String ((Ascii (true, true, false, true, false,
                        true, true, false)), (String ((Ascii (true, false,
                        false, true, false, true, true, false)), (String
                        ((Ascii (false, true, true, true, false, true, true,
                        false)), (String ((Ascii (false, false, true, false,
                        false, true, true, false)),
                        EmptyString))))))))))))))))))))))))))))))))))
