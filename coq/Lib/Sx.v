(** Generic S-expression values exchanged with the Go harness.  The OCaml
    driver only parses/prints this type; all decoding of arguments is done by
    extracted Coq code. *)
From Coq Require Import List NArith ZArith String.
From Tongo Require Import Lib.Bits.
Import ListNotations.

Inductive sx :=
| SN (n : N)
| SZ (z : Z)
| SB (b : bool)
| SBits (l : bits)
| SBytes (l : list N)
| SA (a : string)
| SL (l : list sx).

Definition sx_err (msg : string) : sx := SL [SA "model-shape-error"; SA msg].
Definition sx_nat (n : nat) : sx := SN (N.of_nat n).
