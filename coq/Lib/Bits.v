(** Big-endian bit lists <-> N.  Base library for every codec model. *)
From Coq Require Import List NArith Arith Lia Bool.
Import ListNotations.
Local Open Scope N_scope.

Definition bits := list bool.

(** big-endian numeral: first bit is the most significant *)
Definition N_of_bits (l : bits) : N :=
  fold_left (fun acc b => 2 * acc + N.b2n b) l 0.

(** [bits_of w v] = the [w]-bit big-endian numeral of [v mod 2^w] *)
Fixpoint bits_of_le (w : nat) (v : N) : bits :=
  match w with
  | O => []
  | S w' => N.odd v :: bits_of_le w' (N.div2 v)
  end.
Definition bits_of (w : nat) (v : N) : bits := rev (bits_of_le w v).

Definition zeros (n : nat) : bits := repeat false n.
Definition ones (n : nat) : bits := repeat true n.

Lemma pow2_pos n : 0 < 2 ^ n.
Proof. apply N.neq_0_lt_0. apply N.pow_nonzero. lia. Qed.

(** ** fold_left helper *)
Lemma N_of_bits_acc (l : bits) (a : N) :
  fold_left (fun acc b => 2 * acc + N.b2n b) l a
  = a * 2 ^ N.of_nat (length l) + N_of_bits l.
Proof.
  unfold N_of_bits. revert a.
  induction l as [|b l IH]; intros a.
  - cbn [fold_left length]. change (N.of_nat 0) with 0. rewrite N.pow_0_r. lia.
  - cbn [fold_left length]. rewrite IH. rewrite (IH (2 * 0 + N.b2n b)).
    rewrite Nat2N.inj_succ, N.pow_succ_r'. lia.
Qed.

Lemma N_of_bits_nil : N_of_bits [] = 0.
Proof. reflexivity. Qed.

Lemma N_of_bits_cons b l :
  N_of_bits (b :: l) = N.b2n b * 2 ^ N.of_nat (length l) + N_of_bits l.
Proof.
  unfold N_of_bits at 1. cbn [fold_left]. rewrite N_of_bits_acc. lia.
Qed.

Lemma N_of_bits_app l1 l2 :
  N_of_bits (l1 ++ l2) = N_of_bits l1 * 2 ^ N.of_nat (length l2) + N_of_bits l2.
Proof.
  unfold N_of_bits at 1. rewrite fold_left_app.
  rewrite N_of_bits_acc. reflexivity.
Qed.

Lemma N_of_bits_single b : N_of_bits [b] = N.b2n b.
Proof. destruct b; reflexivity. Qed.

Lemma N_of_bits_snoc l b : N_of_bits (l ++ [b]) = 2 * N_of_bits l + N.b2n b.
Proof.
  rewrite N_of_bits_app, N_of_bits_single. cbn [length].
  change (N.of_nat 1) with 1. rewrite N.pow_1_r. lia.
Qed.

Lemma N_of_bits_bound l : N_of_bits l < 2 ^ N.of_nat (length l).
Proof.
  induction l as [|b l IH] using rev_ind.
  - cbn. lia.
  - rewrite N_of_bits_snoc, app_length. cbn [length].
    rewrite Nat.add_1_r, Nat2N.inj_succ, N.pow_succ_r'.
    destruct b; cbn [N.b2n]; lia.
Qed.

Lemma N_of_bits_zeros n : N_of_bits (zeros n) = 0.
Proof.
  induction n as [|n IH]; [reflexivity|].
  unfold zeros in *. cbn [repeat]. rewrite N_of_bits_cons, IH. cbn [N.b2n]. lia.
Qed.

Lemma N_of_bits_ones n : N_of_bits (ones n) = 2 ^ N.of_nat n - 1.
Proof.
  induction n as [|n IH]; [reflexivity|].
  unfold ones in *. cbn [repeat]. rewrite N_of_bits_cons, IH, repeat_length.
  cbn [N.b2n]. rewrite Nat2N.inj_succ, N.pow_succ_r'.
  assert (0 < 2 ^ N.of_nat n) by (apply pow2_pos). lia.
Qed.

(** ** bits_of *)
Lemma bits_of_le_length w v : length (bits_of_le w v) = w.
Proof. revert v; induction w as [|w IH]; intros v; cbn [bits_of_le length]; auto. Qed.

Lemma bits_of_length w v : length (bits_of w v) = w.
Proof. unfold bits_of. rewrite rev_length. apply bits_of_le_length. Qed.

Lemma odd_div2 v : v = 2 * N.div2 v + N.b2n (N.odd v).
Proof. apply N.div2_odd. Qed.

Lemma mod_double h o p : 0 < p -> o < 2 ->
  (2 * h + o) mod (2 * p) = 2 * (h mod p) + o.
Proof.
  intros Hp Ho.
  rewrite (N.div_mod h p) at 1 by lia.
  replace (2 * (p * (h / p) + h mod p) + o) with (2 * (h mod p) + o + (h / p) * (2 * p)) by lia.
  rewrite N.mod_add by lia.
  apply N.mod_small.
  assert (h mod p < p) by (apply N.mod_lt; lia). lia.
Qed.

Lemma N_of_bits_bits_of w v : N_of_bits (bits_of w v) = v mod 2 ^ N.of_nat w.
Proof.
  unfold bits_of. revert v.
  induction w as [|w IH]; intros v.
  - cbn. rewrite N.mod_1_r. reflexivity.
  - cbn [bits_of_le rev]. rewrite N_of_bits_snoc, IH.
    rewrite Nat2N.inj_succ, N.pow_succ_r'.
    pose proof (pow2_pos (N.of_nat w)) as Hp.
    assert (Ho : N.b2n (N.odd v) < 2) by (destruct (N.odd v); cbn; lia).
    rewrite <- (mod_double _ _ _ Hp Ho).
    rewrite <- odd_div2. reflexivity.
Qed.

Lemma N_of_bits_bits_of_small w v :
  v < 2 ^ N.of_nat w -> N_of_bits (bits_of w v) = v.
Proof. intros H. rewrite N_of_bits_bits_of. apply N.mod_small; exact H. Qed.

Lemma bits_of_snoc_gen w v :
  bits_of (S w) v = bits_of w (N.div2 v) ++ [N.odd v].
Proof. unfold bits_of. cbn [bits_of_le rev]. reflexivity. Qed.

Lemma bits_of_N_of_bits l : bits_of (length l) (N_of_bits l) = l.
Proof.
  induction l as [|b l IH] using rev_ind; [reflexivity|].
  rewrite app_length. cbn [length]. rewrite Nat.add_1_r.
  rewrite bits_of_snoc_gen, N_of_bits_snoc.
  assert (Hb : N.b2n b < 2) by (destruct b; cbn; lia).
  assert (Hd : N.div2 (2 * N_of_bits l + N.b2n b) = N_of_bits l).
  { rewrite N.div2_div. symmetry. apply (N.div_unique _ 2 _ (N.b2n b)); lia. }
  assert (Ho : N.odd (2 * N_of_bits l + N.b2n b) = b).
  { rewrite N.add_comm, N.odd_add_mul_2. destruct b; reflexivity. }
  rewrite Hd, Ho, IH. reflexivity.
Qed.

(** injectivity on equal lengths *)
Lemma N_of_bits_inj l1 l2 :
  length l1 = length l2 -> N_of_bits l1 = N_of_bits l2 -> l1 = l2.
Proof.
  intros HL HN. rewrite <- (bits_of_N_of_bits l1), <- (bits_of_N_of_bits l2).
  rewrite HL, HN. reflexivity.
Qed.

Lemma bits_of_mod w v : bits_of w (v mod 2 ^ N.of_nat w) = bits_of w v.
Proof.
  apply N_of_bits_inj; [rewrite !bits_of_length; reflexivity|].
  rewrite !N_of_bits_bits_of. apply N.mod_mod.
  apply N.pow_nonzero. lia.
Qed.

Lemma bits_of_app w1 w2 v :
  bits_of (w1 + w2) v = bits_of w1 (v / 2 ^ N.of_nat w2) ++ bits_of w2 v.
Proof.
  apply N_of_bits_inj.
  - rewrite app_length, !bits_of_length. reflexivity.
  - rewrite N_of_bits_app, !N_of_bits_bits_of, bits_of_length.
    rewrite Nat2N.inj_add, N.pow_add_r.
    set (a := 2 ^ N.of_nat w1). set (b := 2 ^ N.of_nat w2).
    assert (0 < a) by (apply pow2_pos).
    assert (0 < b) by (apply pow2_pos).
    rewrite (N.mul_comm a b).
    rewrite N.mod_mul_r by lia. lia.
Qed.

(** ** the window lemma: shifting and masking a big-endian load *)
Lemma window (win : bits) (off w : nat) :
  (off + w <= length win)%nat ->
  N.land (N.shiftr (N_of_bits win) (N.of_nat (length win - w - off)))
         (2 ^ N.of_nat w - 1)
  = N_of_bits (firstn w (skipn off win)).
Proof.
  intros Hle.
  set (a := firstn off win).
  set (m := firstn w (skipn off win)).
  set (r := skipn w (skipn off win)).
  assert (Hwin : win = a ++ m ++ r).
  { unfold a, m, r. rewrite (firstn_skipn w), (firstn_skipn off). reflexivity. }
  assert (Hm : length m = w).
  { unfold m. rewrite firstn_length, skipn_length. lia. }
  assert (Hr : length r = (length win - w - off)%nat).
  { unfold r. rewrite !skipn_length. lia. }
  rewrite <- Hr.
  rewrite Hwin at 1. rewrite app_assoc, N_of_bits_app.
  rewrite N.shiftr_div_pow2.
  assert (Hp : 0 < 2 ^ N.of_nat (length r)) by (apply pow2_pos).
  rewrite N.div_add_l by lia.
  rewrite (N.div_small (N_of_bits r)) by apply N_of_bits_bound.
  rewrite N.add_0_r.
  rewrite N_of_bits_app, Hm.
  rewrite <- N.pred_sub, <- N.ones_equiv, N.land_ones.
  rewrite N.add_comm, N.mod_add by (apply N.pow_nonzero; lia).
  apply N.mod_small. rewrite <- Hm. apply N_of_bits_bound.
Qed.

(** ** list update / nth helpers used by the bit-level buffer model *)
Fixpoint set_nth {A} (n : nat) (x : A) (l : list A) : list A :=
  match l, n with
  | [], _ => []
  | _ :: t, O => x :: t
  | h :: t, S n' => h :: set_nth n' x t
  end.

Lemma set_nth_length {A} n (x : A) l : length (set_nth n x l) = length l.
Proof. revert n; induction l as [|h t IH]; intros [|n]; cbn; auto. Qed.

Lemma set_nth_firstn {A} n (x : A) l :
  firstn n (set_nth n x l) = firstn n l.
Proof. revert n; induction l as [|h t IH]; intros [|n]; cbn; auto. f_equal; auto. Qed.

Lemma set_nth_firstn_lt {A} n k (x : A) l :
  (k <= n)%nat -> firstn k (set_nth n x l) = firstn k l.
Proof.
  revert n k; induction l as [|h t IH]; intros [|n] [|k] H; cbn; auto; try lia.
  f_equal. apply IH. lia.
Qed.

Lemma set_nth_firstn_S {A} n (x : A) l :
  (n < length l)%nat -> firstn (S n) (set_nth n x l) = firstn n l ++ [x].
Proof.
  revert n; induction l as [|h t IH]; intros [|n] H; cbn in *; try lia; auto.
  f_equal. apply IH. lia.
Qed.

Lemma set_nth_skipn {A} n k (x : A) l :
  (n < k)%nat -> skipn k (set_nth n x l) = skipn k l.
Proof.
  revert n k; induction l as [|h t IH]; intros [|n] [|k] H; cbn; auto; try lia.
  apply IH. lia.
Qed.

Lemma firstn_app_exact {A} (l1 l2 : list A) : firstn (length l1) (l1 ++ l2) = l1.
Proof.
  rewrite firstn_app, Nat.sub_diag, firstn_all. cbn. apply app_nil_r.
Qed.

Lemma skipn_app_exact {A} (l1 l2 : list A) : skipn (length l1) (l1 ++ l2) = l2.
Proof.
  rewrite skipn_app, Nat.sub_diag, skipn_all. reflexivity.
Qed.

(** single-traversal variants used by the executable models (no [length]) *)
Fixpoint set_nth_opt {A} (n : nat) (x : A) (l : list A) : option (list A) :=
  match l, n with
  | [], _ => None
  | _ :: t, O => Some (x :: t)
  | h :: t, S n' => match set_nth_opt n' x t with Some t' => Some (h :: t') | None => None end
  end.

Lemma set_nth_opt_spec {A} n (x : A) l :
  set_nth_opt n x l = if (n <? length l)%nat then Some (set_nth n x l) else None.
Proof.
  revert n; induction l as [|h t IH]; intros [|n]; cbn [set_nth_opt set_nth length]; auto.
  rewrite IH. change (S n <? S (length t))%nat with (n <? length t)%nat.
  destruct (n <? length t)%nat; reflexivity.
Qed.

(* [short n l] = length l < n *)
Fixpoint short {A} (n : nat) (l : list A) : bool :=
  match n, l with
  | O, _ => false
  | S _, [] => true
  | S n', _ :: t => short n' t
  end.

Lemma short_spec {A} n (l : list A) : short n l = (length l <? n)%nat.
Proof.
  revert l; induction n as [|n IH]; intros [|h t]; cbn [short length]; auto.
  rewrite IH. reflexivity.
Qed.

Lemma skipn_add {A} (a b : nat) (l : list A) : skipn a (skipn b l) = skipn (b + a) l.
Proof.
  revert l; induction b as [|b IH]; intros l; [reflexivity|].
  destruct l as [|h t]; [rewrite !skipn_nil; reflexivity|].
  cbn [skipn Nat.add]. apply IH.
Qed.
