(** Outcome algebra shared by all models: a Go call either returns a value,
    returns an error (only the class is compared), or panics. *)
From Coq Require Import List NArith ZArith.

Inductive res (A : Type) : Type :=
| Ok (a : A)
| Err (e : N)      (* error class, see the table in DESIGN.md *)
| Panic (p : N).   (* panic class *)
Arguments Ok {A} a.
Arguments Err {A} e.
Arguments Panic {A} p.

Definition bind {A B} (r : res A) (f : A -> res B) : res B :=
  match r with
  | Ok a => f a
  | Err e => Err e
  | Panic p => Panic p
  end.

Notation "'do' x <- r ; k" := (bind r (fun x => k))
  (at level 200, x pattern, r at level 100, k at level 200, right associativity).

Definition is_ok {A} (r : res A) : bool := match r with Ok _ => true | _ => false end.
Definition is_panic {A} (r : res A) : bool := match r with Panic _ => true | _ => false end.

Definition res_map {A B} (f : A -> B) (r : res A) : res B :=
  match r with Ok a => Ok (f a) | Err e => Err e | Panic p => Panic p end.

Lemma bind_ok {A B} (r : res A) (f : A -> res B) b :
  bind r f = Ok b -> exists a, r = Ok a /\ f a = Ok b.
Proof. destruct r; cbn; intros H; try discriminate. eauto. Qed.

(* error classes (kept as numerals so extraction stays trivial) *)
Definition ENotEnoughBits : N := 1.
Definition EOverflow : N := 2.
Definition ETooManyBits : N := 3.
Definition EZeroSize : N := 4.
Definition ETooSmall : N := 5.
Definition EInvalidHex : N := 6.
Definition EBadTopUp : N := 7.
Definition ENotEnoughRefs : N := 8.
Definition ERefsOverflow : N := 9.
Definition EOther : N := 10.
Definition EFuel : N := 99.    (* model ran out of fuel: never a real outcome *)

(* panic classes *)
Definition PIndex : N := 1.
Definition PSlice : N := 2.
Definition PMakeSlice : N := 3.
Definition PNil : N := 4.
Definition PExplicit : N := 5.
Definition PShift : N := 6.
