(** C11 proofs, part 2: ParsePacket (forward lemma, soundness/inversion,
    segmentation independence, length bounds), the receive loop (round trip
    of packet sequences with aligned cipher states, fuel, truncation). *)
From Coq Require Import List NArith Bool Lia Arith.
From Tongo Require Import Lib.Bits Spec.AdnlSpec Model.AdnlT Proofs.AdnlTP.
Import ListNotations.
Local Open Scope N_scope.

Lemma firstn_app_len {A} (a b : list A) k : length a = k -> firstn k (a ++ b) = a.
Proof. intros <-. apply firstn_app_exact. Qed.

Lemma skipn_app_len {A} (a b : list A) k : length a = k -> skipn k (a ++ b) = b.
Proof. intros <-. apply skipn_app_exact. Qed.

Section Parse.
  Variable H : list N -> list N.
  Variable cstate : Type.
  Variable next : cstate -> N * cstate.
  Hypothesis H_len : forall x, length (H x) = 32%nat.

  Notation xor_stream := (xor_stream cstate next).
  Notation parse_packet := (parse_packet H cstate next).
  Notation recv_loop := (recv_loop H cstate next).
  Notation recv_all := (recv_all H cstate next).
  Notation POk := (POk cstate).
  Notation PErr := (PErr cstate).

  (* a message the protocol can carry *)
  Definition wf_msg (m : list N * list N) : Prop :=
    length (fst m) = 32%nat /\ 64 + len (snd m) <= max_packet_len.

  (* ---------- Packet.marshal is the protocol frame ---------- *)

  Lemma marshal_frame nonce payload :
    length nonce = 32%nat -> len payload + 64 < 4294967296 ->
    marshal H nonce payload = frame H nonce payload.
  Proof.
    intros Ln Lp. unfold marshal, frame, packet_size, packet_hash.
    rewrite (fit_exact 32 nonce Ln), (fit_exact 32 (H _) (H_len _)).
    rewrite N.mod_small by lia. do 2 f_equal. lia.
  Qed.

  (* ---------- forward: what ParsePacket does on a complete packet ---------- *)

  Lemma parse_packet_plain r s c4 cd rest dsz L d s1 s2 :
    concat r = c4 ++ cd ++ rest -> len c4 = 4 ->
    xor_stream s c4 = (dsz, s1) -> of_le32 dsz = L ->
    min_packet_len <= L -> L <= max_packet_len -> len cd = L ->
    xor_stream s1 cd = (d, s2) ->
    exists r2, concat r2 = rest /\
      parse_packet r s =
      (let nonce := firstn 32 d in
       let payload := firstn (N.to_nat (L - 64)) (skipn 32 d) in
       let sum := skipn (N.to_nat (L - 64)) (skipn 32 d) in
       if bytes_eqb sum (H (nonce ++ payload)) then POk nonce payload r2 s2
       else PErr PSum r2).
  Proof.
    intros C L4 X1 Hof Lmin Lmax Ld X2. unfold AdnlT.parse_packet.
    destruct (read_full_ok r 4 false c4 (cd ++ rest) L4 C) as [r1 [R1 C1]].
    rewrite R1, X1, Hof.
    rewrite (proj2 (N.ltb_ge L min_packet_len) Lmin).
    rewrite (proj2 (N.ltb_ge max_packet_len L) Lmax). cbn [orb].
    destruct (read_full_ok r1 L false cd rest Ld C1) as [r2 [R2 C2]].
    rewrite R2, X2, !take_spec.
    exists r2. split; [exact C2|].
    change (N.to_nat 32) with 32%nat.
    replace (L - 32 - 32) with (L - 64) by lia. reflexivity.
  Qed.

  Lemma frame_split s nonce payload ct s' :
    xor_stream s (frame H nonce payload) = (ct, s') ->
    exists c4 cb cs s1 s2,
      ct = c4 ++ cb ++ cs /\
      xor_stream s c4 = (le32 (32 + len payload + 32), s1) /\
      xor_stream s1 cb = (nonce ++ payload, s2) /\
      xor_stream s2 cs = (H (nonce ++ payload), s') /\
      length c4 = 4%nat /\ length cb = length (nonce ++ payload) /\ length cs = 32%nat.
  Proof.
    unfold frame. intros X.
    replace (nonce ++ payload ++ H (nonce ++ payload))
      with ((nonce ++ payload) ++ H (nonce ++ payload)) in X by (rewrite app_assoc; reflexivity).
    apply xor_stream_split in X. destruct X as [c4 [c2 [s1 [-> [X1 X2]]]]].
    apply xor_stream_split in X2. destruct X2 as [cb [cs [s2 [-> [X2 X3]]]]].
    exists c4, cb, cs, s1, s2.
    pose proof (xor_stream_length_eq _ _ _ _ _ _ X1) as L1.
    pose proof (xor_stream_length_eq _ _ _ _ _ _ X2) as L2.
    pose proof (xor_stream_length_eq _ _ _ _ _ _ X3) as L3.
    rewrite H_len in L3.
    apply xor_stream_invol in X1. apply xor_stream_invol in X2. apply xor_stream_invol in X3.
    repeat split; auto.
  Qed.

  (* decision of ParsePacket on a decrypted body of the right shape *)
  Lemma check_shape (db ds : list N) (L : N) :
    (32 <= length db)%nat -> len db + 32 = L ->
    firstn 32 (db ++ ds) = firstn 32 db /\
    firstn (N.to_nat (L - 64)) (skipn 32 (db ++ ds)) = skipn 32 db /\
    skipn (N.to_nat (L - 64)) (skipn 32 (db ++ ds)) = ds.
  Proof.
    intros L32 LL. unfold len in LL.
    assert (E : length (skipn 32 db) = N.to_nat (L - 64)) by (rewrite skipn_length; lia).
    rewrite firstn_app, skipn_app.
    replace (32 - length db)%nat with 0%nat by lia. cbn [firstn skipn].
    rewrite app_nil_r. repeat split.
    - apply firstn_app_len. exact E.
    - apply skipn_app_len. exact E.
  Qed.

  (* a well-formed frame, encrypted at the receiver's state, is delivered and
     the receiver ends in the sender's state *)
  Lemma parse_frame_ok r s nonce payload ct s' rest :
    wf_msg (nonce, payload) ->
    xor_stream s (frame H nonce payload) = (ct, s') ->
    concat r = ct ++ rest ->
    exists r2, concat r2 = rest /\ parse_packet r s = POk nonce payload r2 s'.
  Proof.
    intros [Ln Lp] X C. cbn [fst snd] in Ln, Lp. unfold max_packet_len in Lp.
    destruct (frame_split _ _ _ _ _ X) as [c4 [cb [cs [s1 [s2 [-> [X1 [X2 [X3 [L1 [L2 L3]]]]]]]]]]].
    rewrite app_length in L2.
    assert (X23 : xor_stream s1 (cb ++ cs) = ((nonce ++ payload) ++ H (nonce ++ payload), s'))
      by (eapply xor_stream_app_eq; eassumption).
    destruct (parse_packet_plain r s c4 (cb ++ cs) rest _ (32 + len payload + 32) _ s1 s'
                ltac:(rewrite C, <- !app_assoc; reflexivity)
                ltac:(unfold len; lia) X1
                ltac:(apply of_le32_le32; lia)
                ltac:(unfold min_packet_len; lia) ltac:(unfold max_packet_len; lia)
                ltac:(rewrite len_app; unfold len in *; lia) X23) as [r2 [C2 P]].
    exists r2. split; [exact C2|]. rewrite P. cbv zeta.
    destruct (check_shape (nonce ++ payload) (H (nonce ++ payload)) (32 + len payload + 32))
      as [E1 [E2 E3]].
    { rewrite app_length. lia. }
    { rewrite len_app. unfold len. lia. }
    rewrite E1, E2, E3.
    rewrite (firstn_app_len nonce payload 32 Ln), (skipn_app_len nonce payload 32 Ln).
    rewrite bytes_eqb_refl. reflexivity.
  Qed.

  (* ---------- soundness: whatever is delivered was a frame in the stream ---------- *)

  Lemma parse_packet_inv r s nonce payload r' s' :
    parse_packet r s = POk nonce payload r' s' ->
    exists c4 cd dsz s1,
      concat r = c4 ++ cd ++ concat r' /\ len c4 = 4 /\
      xor_stream s c4 = (dsz, s1) /\ of_le32 dsz = 64 + len payload /\
      64 + len payload <= max_packet_len /\ len cd = 64 + len payload /\
      xor_stream s1 cd = (nonce ++ payload ++ H (nonce ++ payload), s') /\
      length nonce = 32%nat.
  Proof.
    unfold AdnlT.parse_packet. intros P.
    destruct (read_full 4 r false) as [c4 r1| |] eqn:R1; try discriminate.
    destruct (xor_stream s c4) as [dsz s1] eqn:X1.
    destruct (of_le32 dsz <? min_packet_len) eqn:B1; [discriminate|].
    destruct (max_packet_len <? of_le32 dsz) eqn:B2; [discriminate|]. cbn [orb] in P.
    destruct (read_full (of_le32 dsz) r1 false) as [cd r2| |] eqn:R2; try discriminate.
    destruct (xor_stream s1 cd) as [d s2] eqn:X2.
    rewrite !take_spec in P. cbv beta iota zeta in P.
    remember (firstn (N.to_nat 32) d) as n0 eqn:En.
    remember (firstn (N.to_nat (of_le32 dsz - 32 - 32)) (skipn (N.to_nat 32) d)) as p0 eqn:Ep.
    remember (skipn (N.to_nat (of_le32 dsz - 32 - 32)) (skipn (N.to_nat 32) d)) as sm eqn:Esm.
    destruct (bytes_eqb sm (packet_hash H n0 p0)) eqn:B; [|discriminate].
    injection P as -> -> Er Es. subst r2 s2.
    change (N.to_nat 32) with 32%nat in *. symmetry in En, Ep.
    apply N.ltb_ge in B1. apply N.ltb_ge in B2. unfold min_packet_len in B1.
    apply read_full_inv in R1. destruct R1 as [L4 C1].
    apply read_full_inv in R2. destruct R2 as [Ld C2].
    apply bytes_eqb_eq in B. unfold packet_hash in B. subst sm.
    pose proof (xor_stream_length_eq _ _ _ _ _ _ X2) as Ldd.
    set (L := of_le32 dsz) in *.
    assert (Hd : length d = N.to_nat L) by (unfold len in Ld; lia).
    assert (Hn : length nonce = 32%nat).
    { rewrite <- En, firstn_length. lia. }
    assert (Hp : length payload = N.to_nat (L - 64)).
    { rewrite <- Ep, firstn_length, skipn_length. lia. }
    assert (Dd : d = nonce ++ payload ++ H (nonce ++ payload)).
    { rewrite <- (firstn_skipn 32 d), En. f_equal.
      rewrite <- (firstn_skipn (N.to_nat (L - 32 - 32)) (skipn 32 d)), Ep. f_equal. exact B. }
    assert (EL : L = 64 + len payload) by (unfold len; lia).
    exists c4, cd, dsz, s1. rewrite <- Dd, <- EL.
    repeat split; auto. rewrite C1, C2. reflexivity.
  Qed.

  (* length-field bounds *)
  Theorem parse_ok_bounds r s nonce payload r' s' :
    parse_packet r s = POk nonce payload r' s' ->
    length nonce = 32%nat /\ len payload <= max_packet_len - 64 /\
    length (concat r) = (68 + length payload + length (concat r'))%nat.
  Proof.
    intros P. destruct (parse_packet_inv _ _ _ _ _ _ P)
      as [c4 [cd [dsz [s1 [C [L4 [_ [_ [Lmax [Ld [_ Ln]]]]]]]]]]].
    unfold max_packet_len in *. repeat split; [exact Ln|lia|].
    rewrite C, !app_length. unfold len in *. lia.
  Qed.

  Theorem parse_length_rejected r s c4 rest dsz s1 :
    concat r = c4 ++ rest -> len c4 = 4 -> xor_stream s c4 = (dsz, s1) ->
    (of_le32 dsz < min_packet_len \/ max_packet_len < of_le32 dsz) ->
    exists r1, parse_packet r s = PErr PLen r1 /\ concat r1 = rest.
  Proof.
    intros C L4 X B. unfold AdnlT.parse_packet.
    destruct (read_full_ok r 4 false c4 rest L4 C) as [r1 [R1 C1]].
    rewrite R1, X.
    assert (E : ((of_le32 dsz <? min_packet_len) || (max_packet_len <? of_le32 dsz))%bool = true).
    { apply orb_true_iff. destruct B as [B|B]; [left|right]; apply N.ltb_lt; exact B. }
    rewrite E. eauto.
  Qed.

  Lemma parse_packet_not_fuel r s e r' : parse_packet r s = PErr e r' -> e <> PFuel.
  Proof.
    unfold AdnlT.parse_packet. intros P.
    destruct (read_full 4 r false) as [c4 r1| |]; try (injection P as <- _; discriminate).
    destruct (xor_stream s c4) as [dsz s1].
    destruct (_ || _)%bool; [injection P as <- _; discriminate|].
    destruct (read_full (of_le32 dsz) r1 false) as [cd r2| |];
      try (injection P as <- _; discriminate).
    destruct (xor_stream s1 cd) as [d s2].
    destruct (take 32 d) as [[a b] c]. destruct (take _ b) as [[a' b'] c'].
    destruct (bytes_eqb _ _); [discriminate|injection P as <- _; discriminate].
  Qed.

  (* ---------- segmentation independence ---------- *)

  Definition pres_equiv (a b : pres cstate) : Prop :=
    match a, b with
    | AdnlT.POk _ n p r s, AdnlT.POk _ n' p' r' s' =>
        n = n' /\ p = p' /\ concat r = concat r' /\ s = s'
    | AdnlT.PErr _ e r, AdnlT.PErr _ e' r' => e = e' /\ concat r = concat r'
    | _, _ => False
    end.

  Theorem parse_packet_segmentation r1 r2 s :
    concat r1 = concat r2 -> pres_equiv (parse_packet r1 s) (parse_packet r2 s).
  Proof.
    intros E. unfold AdnlT.parse_packet.
    pose proof (read_full_seg r1 r2 4 false E) as Q.
    destruct (read_full 4 r1 false) as [a x| |], (read_full 4 r2 false) as [b y| |];
      cbn in Q; try contradiction; try (cbn; auto; fail).
    destruct Q as [<- Exy]. destruct (xor_stream s a) as [dsz s1].
    destruct (_ || _)%bool; [cbn; auto|].
    pose proof (read_full_seg x y (of_le32 dsz) false Exy) as Q.
    destruct (read_full (of_le32 dsz) x false) as [c x'| |],
             (read_full (of_le32 dsz) y false) as [d y'| |];
      cbn in Q; try contradiction; try (cbn; auto; fail).
    destruct Q as [<- Exy']. destruct (xor_stream s1 c) as [dd s2].
    destruct (take 32 dd) as [[n b] m]. destruct (take _ b) as [[p sm] m'].
    destruct (bytes_eqb _ _); cbn; auto.
  Qed.

  Theorem recv_loop_segmentation fuel : forall r1 r2 s,
    concat r1 = concat r2 -> recv_loop fuel r1 s = recv_loop fuel r2 s.
  Proof.
    induction fuel as [|f IH]; intros r1 r2 s E; [reflexivity|].
    cbn [AdnlT.recv_loop].
    pose proof (parse_packet_segmentation r1 r2 s E) as Q.
    destruct (parse_packet r1 s) as [n p x s1|e x], (parse_packet r2 s) as [n' p' y s1'|e' y];
      cbn in Q; try contradiction.
    - destruct Q as [_ [<- [Exy <-]]]. rewrite (IH x y s1 Exy). reflexivity.
    - destruct Q as [<- _]. reflexivity.
  Qed.

  Theorem recv_all_segmentation r1 r2 s :
    concat r1 = concat r2 -> recv_all r1 s = recv_all r2 s.
  Proof.
    intros E. unfold AdnlT.recv_all, reader_len. rewrite E.
    apply recv_loop_segmentation. exact E.
  Qed.

  (* ---------- fuel is never exhausted ---------- *)

  Lemma recv_loop_no_fuel fuel : forall r s,
    (length (concat r) < fuel)%nat -> snd (recv_loop fuel r s) <> PFuel.
  Proof.
    induction fuel as [|f IH]; intros r s L; [lia|].
    cbn [AdnlT.recv_loop].
    destruct (parse_packet r s) as [n p r' s'|e r'] eqn:P.
    - destruct (parse_ok_bounds _ _ _ _ _ _ P) as [_ [_ C]].
      specialize (IH r' s' ltac:(lia)).
      destruct (recv_loop f r' s') as [ps e]. exact IH.
    - cbn. eapply parse_packet_not_fuel. exact P.
  Qed.

  Theorem recv_all_no_fuel r s : snd (recv_all r s) <> PFuel.
  Proof. apply recv_loop_no_fuel. unfold reader_len. lia. Qed.

  Lemma recv_loop_more fuel : forall k r s,
    snd (recv_loop fuel r s) <> PFuel -> recv_loop (fuel + k) r s = recv_loop fuel r s.
  Proof.
    induction fuel as [|f IH]; intros k r s NF; [cbn in NF; congruence|].
    cbn [AdnlT.recv_loop plus] in *.
    destruct (parse_packet r s) as [n p r' s'|e r']; [|reflexivity].
    rewrite (IH k r' s'); [reflexivity|].
    destruct (recv_loop f r' s') as [ps e]. exact NF.
  Qed.

  (* ---------- sequences of packets ---------- *)

  Definition frames_plain (msgs : list (list N * list N)) : list N :=
    concat (map (fun m => frame H (fst m) (snd m)) msgs).

  (* the receiver, started in the sender's state, delivers the payloads in
     order and continues on the rest of the stream in the sender's final state *)
  Lemma recv_loop_frames msgs : forall fuel r s ct s' rest,
    Forall wf_msg msgs ->
    xor_stream s (frames_plain msgs) = (ct, s') ->
    concat r = ct ++ rest ->
    exists r', concat r' = rest /\
      recv_loop (length msgs + fuel) r s =
      (let '(ps, e) := recv_loop fuel r' s' in (map snd msgs ++ ps, e)).
  Proof.
    induction msgs as [|[nonce payload] t IH]; intros fuel r s ct s' rest W X C.
    - cbn in X. injection X as <- <-. exists r. split; [exact C|].
      cbn [length plus map app]. destruct (recv_loop fuel r s); reflexivity.
    - inversion W as [|m l Wm Wt]; subst.
      unfold frames_plain in X. cbn [map concat fst snd] in X. fold (frames_plain t) in X.
      apply xor_stream_split in X. destruct X as [c1 [c2 [s1 [-> [X1 X2]]]]].
      destruct (parse_frame_ok r s nonce payload c1 s1 (c2 ++ rest) Wm X1
                  ltac:(rewrite C, app_assoc; reflexivity)) as [r1 [C1 P]].
      destruct (IH fuel r1 s1 c2 s' rest Wt X2 C1) as [r' [C' R]].
      exists r'. split; [exact C'|].
      cbn [length plus AdnlT.recv_loop]. rewrite P, R.
      destruct (recv_loop fuel r' s') as [ps e]. reflexivity.
  Qed.

  Lemma recv_loop_eof f r s : concat r = [] -> recv_loop (S f) r s = ([], PEof).
  Proof.
    intros C. cbn [AdnlT.recv_loop]. unfold AdnlT.parse_packet.
    rewrite read_full_short by (rewrite C; reflexivity). rewrite C. reflexivity.
  Qed.

  Lemma frames_plain_length msgs : (length msgs <= length (frames_plain msgs))%nat.
  Proof.
    induction msgs as [|m t IH]; [cbn; lia|].
    unfold frames_plain in *. cbn [map concat length]. rewrite app_length.
    assert (4 <= length (frame H (fst m) (snd m)))%nat
      by (unfold frame; rewrite app_length, le32_length; lia).
    lia.
  Qed.

  Theorem recv_all_frames msgs r s ct s' :
    Forall wf_msg msgs ->
    xor_stream s (frames_plain msgs) = (ct, s') ->
    concat r = ct ->
    recv_all r s = (map snd msgs, PEof).
  Proof.
    intros W X C. unfold AdnlT.recv_all, reader_len. rewrite C.
    pose proof (xor_stream_length_eq _ _ _ _ _ _ X) as Lc.
    pose proof (frames_plain_length msgs) as Lm.
    replace (S (length ct)) with (length msgs + S (length ct - length msgs))%nat by lia.
    destruct (recv_loop_frames msgs (S (length ct - length msgs)) r s ct s' [] W X
                ltac:(rewrite C, app_nil_r; reflexivity)) as [r' [C' R]].
    rewrite R, (recv_loop_eof _ r' s' C'), app_nil_r. reflexivity.
  Qed.
End Parse.
