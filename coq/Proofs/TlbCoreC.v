(** C03: corollaries of the two core theorems of TlbCoreP (encoder = declarative
    semantics; decoder inverts the semantics): the prefix law, the round trip at
    the [encode]/[decode] entry points, constructor preservation, re-encoding,
    and the primitive laws for every width. *)
From Coq Require Import List NArith ZArith Arith Lia Bool.
From Tongo Require Import Lib.Bits Lib.Res Proofs.BitStringW Proofs.BitStringR Proofs.BitStringR2 Model.TlbCore Proofs.TlbCoreP.
Import ListNotations.

Section C.
Variable env : list ty.

(** Prefix law (tail law when the type ends in a rest-of-cell codec): whatever
    the builder held before, the encoder appends some bits [bs] and references
    [rs], and the decoder started on [bs ++ tb], [rs ++ tr] returns the value
    and leaves exactly [tb], [tr] — for every continuation when the type is
    not a tail type, for the empty continuation otherwise. *)
Theorem prefix_law fuel t v b b' :
  wf env fuel t = true -> has_type env fuel t v = true ->
  enc env fuel t v b = Ok b' ->
  exists bs rs,
    bb b' = bb b ++ bs /\ br b' = br b ++ rs /\
    forall tb tr, (tail env fuel t = false \/ (tb = [] /\ tr = [])) ->
      dec env fuel t (mks (bs ++ tb) (rs ++ tr)) = Ok (v, mks tb tr).
Proof.
  intros Hwf Hty He.
  destruct (enc_is_spec env _ _ _ _ _ He) as (bs & rs & Hs & Hb & Hr).
  exists bs, rs. split; [exact Hb|]. split; [exact Hr|].
  intros tb tr Ht. apply dec_inverts_spec; assumption.
Qed.

Lemma encode_ok t v c :
  encode env t v = Ok c ->
  exists b, enc env (fuel_of env t) t v empty_bld = Ok b /\ c = finish b.
Proof.
  unfold encode. destruct (enc env (fuel_of env t) t v empty_bld) as [b| |]; try discriminate.
  intros E. injection E as <-. eauto.
Qed.

(** generic round trip *)
Theorem generic_roundtrip t v c :
  wf_ty env t = true -> in_domain env t v = true ->
  encode env t v = Ok c ->
  decode env t c = Ok (v, mks [] []).
Proof.
  unfold wf_ty, in_domain, decode. intros Hwf Hty He.
  destruct (encode_ok _ _ _ He) as (b & Hb & ->).
  apply roundtrip; assumption.
Qed.

(** the constructor of a tagged union is part of the value: it is selected again *)
Corollary same_constructor alts k x c :
  wf_ty env (TSum alts) = true -> in_domain env (TSum alts) (VSum k x) = true ->
  encode env (TSum alts) (VSum k x) = Ok c ->
  exists x' rest, decode env (TSum alts) c = Ok (VSum k x', rest) /\ x' = x.
Proof.
  intros Hwf Hty He. exists x, (mks [] []). split; [|reflexivity].
  apply generic_roundtrip; assumption.
Qed.

(** encoding the decoded value again gives the same cell (hence the same
    representation hash, whatever the hash function) *)
Corollary reencode_same_cell t v c v' rest :
  wf_ty env t = true -> in_domain env t v = true ->
  encode env t v = Ok c ->
  decode env t c = Ok (v', rest) ->
  encode env t v' = Ok c /\ forall (A : Type) (H : ctree -> A) c', encode env t v' = Ok c' -> H c' = H c.
Proof.
  intros Hwf Hty He Hd.
  rewrite (generic_roundtrip _ _ _ Hwf Hty He) in Hd. injection Hd as <- <-.
  split; [exact He|]. intros A H c' He'. rewrite He in He'. injection He' as <-. reflexivity.
Qed.

(** the encoder never writes more than a cell can hold *)
Lemma enc_capacity fuel t v b b' :
  enc env fuel t v b = Ok b' ->
  (length (bb b) <= 1023)%nat -> (length (br b) <= 4)%nat ->
  (length (bb b') <= 1023)%nat /\ (length (br b') <= 4)%nat.
Proof.
  revert t v b b'. induction fuel as [|f IH]; intros t v b b' He Hb Hr; [discriminate|].
  assert (Hpb : forall l x y, put_bits l x = Ok y -> (length (br x) <= 4)%nat ->
                  (length (bb y) <= 1023)%nat /\ (length (br y) <= 4)%nat).
  { intros l x y H Hx. unfold put_bits in H.
    destruct (Nat.ltb_spec 1023 (length (bb x) + length l)); [discriminate|].
    injection H as <-. cbn [bb br]. rewrite app_length. lia. }
  assert (Hpr : forall c x y, put_ref c x = Ok y -> (length (bb x) <= 1023)%nat ->
                  (length (bb y) <= 1023)%nat /\ (length (br y) <= 4)%nat).
  { intros c x y H Hx. unfold put_ref in H.
    destruct (Nat.leb_spec 4 (length (br x))); [discriminate|].
    injection H as <-. cbn [bb br]. rewrite app_length. cbn [length]. lia. }
  assert (Hbind : forall l x y t' v', (do b1 <- put_bits l x; enc env f t' v' b1) = Ok y ->
                  (length (br x) <= 4)%nat -> (length (bb y) <= 1023)%nat /\ (length (br y) <= 4)%nat).
  { intros l x y t' v' H Hx. destruct (put_bits l x) as [b1| |] eqn:E; try discriminate.
    cbn [bind] in H. destruct (Hpb _ _ _ E Hx). eapply IH; eassumption. }
  assert (Hrefc : forall l x y t' v', (do b1 <- put_bits l x; do c <- enc env f t' v' empty_bld; put_ref (finish c) b1) = Ok y ->
                  (length (br x) <= 4)%nat -> (length (bb y) <= 1023)%nat /\ (length (br y) <= 4)%nat).
  { intros l x y t' v' H Hx. destruct (put_bits l x) as [b1| |] eqn:E; try discriminate.
    cbn [bind] in H. destruct (enc env f t' v' empty_bld) as [c| |]; try discriminate.
    cbn [bind] in H. destruct (Hpb _ _ _ E Hx). eapply Hpr; eassumption. }
  destruct t; cbn [enc] in He.
  - destruct v; try discriminate. eauto.
  - destruct v; try discriminate. eauto.
  - destruct v; try discriminate.
    destruct ((w =? 0)%nat || (N.of_nat w <? N.size n)%N); [discriminate|]. eauto.
  - destruct v; try discriminate. eauto.
  - destruct v; try discriminate. eauto.
  - destruct v; try discriminate. eauto.
  - destruct v; try discriminate.
    destruct (put_bits _ b) as [b1| |] eqn:E; try discriminate. cbn [bind] in He.
    destruct (Hpb _ _ _ E Hr). eauto.
  - destruct v; try discriminate. eauto.
  - destruct v; try discriminate. eauto.
  - destruct v; try discriminate. destruct o; eauto.
  - destruct v; try discriminate. destruct right; eauto.
  - destruct v; try discriminate. destruct right; eauto.
  - destruct (enc env f t v empty_bld) as [c| |]; try discriminate. cbn [bind] in He. eauto.
  - destruct v; try discriminate. destruct o; eauto.
  - destruct v; try discriminate.
    revert vs b He Hb Hr. induction fs as [|t1 ft IHf]; intros vs b He Hb Hr; destruct vs as [|v1 vt]; try discriminate.
    + injection He as <-. auto.
    + destruct (enc env f t1 v1 b) as [b1| |] eqn:E; try discriminate. cbn [bind] in He.
      destruct (IH _ _ _ _ E Hb Hr). eapply IHf; eassumption.
  - destruct v; try discriminate.
    destruct (nth_error alts k) as [[[len val] t']|]; [|discriminate]. eauto.
  - destruct v; try discriminate.
    destruct (put_bits b0 b) as [b1| |] eqn:E; try discriminate. cbn [bind] in He.
    destruct (Hpb _ _ _ E Hr) as (H1 & H2). clear E.
    revert b1 He H1 H2. induction r as [|c t IHr]; intros b1 He H1 H2.
    + injection He as <-. auto.
    + destruct (put_ref c b1) as [b2| |] eqn:E; try discriminate. cbn [bind] in He.
      destruct (Hpr _ _ _ E H1). eapply IHr; eassumption.
  - destruct v; try discriminate. eauto.
  - destruct v; try discriminate.
    destruct a; try (destruct (511 <? length l)%nat; [discriminate|]); eauto.
  - destruct (nth_error env i); [|discriminate]. eauto.
Qed.

End C.

(** *** primitive laws, for every width *)

(** uintN: the n-bit big-endian numeral *)
Theorem uint_law w n tb :
  (n < 2 ^ N.of_nat w)%N ->
  length (bits_of w n) = w /\ N_of_bits (bits_of w n) = n /\
  N_of_bits (firstn w (bits_of w n ++ tb)) = n.
Proof.
  intros H. split; [apply bits_of_length|]. split; [apply N_of_bits_bits_of_small; exact H|].
  pose proof (bits_of_length w n) as Hl.
  rewrite <- Hl at 1. rewrite firstn_app_exact. apply N_of_bits_bits_of_small; exact H.
Qed.

(** intN: two's complement, n >= 1 *)
Theorem int_law w z :
  (1 <= w)%nat -> (- 2 ^ (Z.of_nat w - 1) <= z < 2 ^ (Z.of_nat w - 1))%Z ->
  length (enc_int_bits w z) = w /\ dec_int_bits (enc_int_bits w z) = z.
Proof.
  intros Hw Hz. split; [apply bits_of_length|].
  exact (BitStringR2.dec_enc_int z w Hw Hz).
Qed.

(** VarUInteger n: the byte length written is the minimal one *)
Theorem varuint_minimal x :
  (x < 2 ^ N.of_nat (8 * byte_len x))%N /\
  (x <> 0%N -> (2 ^ N.of_nat (8 * (byte_len x - 1)) <= x)%N) /\
  (x = 0%N -> byte_len x = 0%nat).
Proof.
  split; [apply byte_len_bound|]. split.
  - intros Hx. unfold byte_len.
    set (sz := N.to_nat (N.size x)).
    assert (Hs : N.size x = N.of_nat sz) by (unfold sz; rewrite N2Nat.id; reflexivity).
    assert (Hpos : (1 <= sz)%nat).
    { unfold sz. rewrite N.size_log2 by exact Hx. lia. }
    pose proof (Nat.div_mod (sz + 7) 8 ltac:(lia)) as Hd.
    pose proof (Nat.mod_upper_bound (sz + 7) 8 ltac:(lia)) as Hm.
    assert (Hle : (8 * ((sz + 7) / 8 - 1) <= sz - 1)%nat) by lia.
    assert (Hlog : (2 ^ N.log2 x <= x)%N) by (apply N.log2_spec; lia).
    eapply N.le_trans; [|exact Hlog].
    apply N.pow_le_mono_r; [lia|].
    rewrite N.size_log2 in Hs by exact Hx. lia.
  - intros ->. reflexivity.
Qed.

(** MsgAddress, all four forms incl. anycast *)
Theorem msgaddress_law a rest :
  addr_ok a = true -> addr_parse (addr_bits a ++ rest) = Ok (a, rest).
Proof. apply addr_parse_bits. Qed.

(** *** cells pass through unchanged: a [boc.Cell] value (^Cell, Ref[Cell]) becomes
    the reference itself, and the references of an [Any] are appended as they are —
    whatever the cell is (the model's cells are opaque values here; the harness
    checks on the implementation that type, level mask and hash are kept). *)
Theorem cell_passthrough env fuel c b b' :
  enc env (S fuel) TCellRef (VCell c) b = Ok b' -> bb b' = bb b /\ br b' = br b ++ [c].
Proof. cbn [enc]. apply put_ref_ok. Qed.

Theorem any_refs_passthrough env fuel l r b b' :
  enc env (S fuel) TAny (VAny l r) b = Ok b' -> bb b' = bb b ++ l /\ br b' = br b ++ r.
Proof.
  intros He. destruct (enc_is_spec env _ _ _ _ _ He) as (bs & rs & Hs & Hb & Hr).
  cbn [spec] in Hs. injection Hs as <- <-. split; assumption.
Qed.
